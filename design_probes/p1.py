from mosaik.tiered_time import TieredInterval, TieredTime

def antisym2(a0: int, a1: int, b0: int, b1: int) -> bool:
    """
    post: _
    """
    a = TieredInterval(a0, a1); b = TieredInterval(b0, b1)
    return not ((a < b) and (b < a))

def mono2(t0: int, t1: int, a0: int, a1: int, b0: int, b1: int) -> bool:
    """
    post: _
    """
    a = TieredInterval(a0, a1); b = TieredInterval(b0, b1); t = TieredTime(t0, t1)
    if a < b:
        return (t + a) <= (t + b)
    return True

def assoc(a0: int, a1: int, b0: int, b1: int, c0:int, c1:int) -> bool:
    """
    post: _
    """
    a = TieredInterval(a0, a1, cutoff=1); b = TieredInterval(b0, b1,cutoff=2); c = TieredInterval(c0, c1, cutoff=1)
    return (a + b) + c == a + (b + c)

from typing import FrozenSet, Optional, List
from mosaik.in_or_out_set import OutSet, parse_set_triple
from mosaik.proxies import extract_version

def outset_sub(a: FrozenSet[int], b: FrozenSet[int], x: int) -> bool:
    """
    post: _
    """
    r = OutSet(a) - OutSet(b)
    return (x in r) == ((x not in a) and not (x not in b))

def triple_partition(u: FrozenSet[int], a: FrozenSet[int]) -> bool:
    """
    pre: len(u) <= 3 and len(a) <= 3
    post: _
    """
    try:
        pa, pb = parse_set_triple(u, a, None)
    except ValueError:
        return not (a <= u)
    return pa | pb == u and not (pa & pb) and a <= u

def ver(s: str) -> bool:
    """
    pre: len(s) <= 3
    post: _
    raises: ValueError
    """
    v = extract_version({'api_version': s})
    return v != [3, 7]

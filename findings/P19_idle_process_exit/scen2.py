import sys, time, os, mosaik
for f in ('A.fin',):
    if os.path.exists(f): os.remove(f)
w = mosaik.World({'S': {'cmd': '%(python)s sims.py %(addr)s'}}, skip_greetings=True)
order = sys.argv[1]
ents = {}
for sid in order:
    if sid == 'A':
        ents['A'] = w.start('S', sim_id='A', slow=1.0, marker='A.fin').M()
    else:
        ents['B'] = w.start('S', sim_id='B', die_after=0.4).M()
w.connect(ents['A'], ents['B'], ('a', 'b'))
t0 = time.time()
try:
    w.run(until=3, print_progress=False)
    print('run returned normally after', round(time.time() - t0, 2), 's')
except BaseException as e:
    print('run raised', type(e).__name__, str(e)[:100], 'after', round(time.time() - t0, 2), 's')
time.sleep(0.5)
print('A finalized:', os.path.exists('A.fin'), 'loop closed:', w.loop.is_closed())

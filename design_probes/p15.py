"""Probe: C08 kernel obligations on the real TieredInterval with unbounded symbolic tiers (QF oracle)."""
import itertools, time, sys
import z3, symex2
from symex2 import Engine, SymInt, SymBool, Violation
from mosaik.tiered_time import TieredInterval as TI, TieredTime as TT
MAXLEN = int(sys.argv[1]) if len(sys.argv) > 1 else 2
def shapes():
    for n in range(1, MAXLEN + 1):
        for p in range(1, MAXLEN + 1):
            for c in range(1, min(n, p) + 1):
                yield (p, c, n)
def mk(eng, name, shape):
    p, c, n = shape
    return TI(*[eng.fresh_int(f'{name}{i}', 0) for i in range(n)], cutoff=c, pre_length=p)
def e(x): return x.e if isinstance(x, SymInt) else z3.IntVal(x)
def LE(a, b, i=0):
    """QF term for: forall t>=0 . t+a <=lex t+b   (same pre_length and len; tiers >= 0, t_i unbounded above)"""
    n = len(a.tiers)
    if i == n: return z3.BoolVal(True)
    x, y = e(a.tiers[i]), e(b.tiers[i]); a_add = i < a.cutoff; b_add = i < b.cutoff
    rest = LE(a, b, i + 1)
    if a_add == b_add: return z3.Or(x < y, z3.And(x == y, rest))
    if a_add and not b_add: return z3.BoolVal(False)        # t_i + x eventually exceeds the constant y
    return z3.Or(x < y, z3.And(x == y, rest))                # constant x vs t_i + y
def FEQ(a, b):
    if a.cutoff != b.cutoff: return z3.BoolVal(False)
    return z3.And(*[e(x) == e(y) for x, y in zip(a.tiers, b.tiers)])
def run(name, fn, *shape_lists):
    t0 = time.time(); tot = 0; viol = {}; n = 0
    for combo in itertools.product(*shape_lists):
        if not all(s[0] == combo[0][0] and s[2] == combo[0][2] for s in combo): continue
        n += 1; eng = Engine()
        res, complete = eng.explore(lambda eng, combo=combo: fn(eng, *combo), budget_s=60)
        assert complete; tot += eng.paths
        for r in res:
            if r[0] == 'violation':
                viol.setdefault(r[1].what, []).append((combo, {str(d): r[1].model[d] for d in r[1].model.decls()}))
    print(f'{name}: shape combos {n} paths {tot} time {time.time()-t0:.1f}s violations {[(k, len(v)) for k, v in viol.items()]}')
    for k, v in viol.items(): print('     e.g.', k, v[0])
S = list(shapes())
def lt(a, b):
    try: return bool(a < b)
    except AssertionError: return None
def o3(eng, sa, sb):
    a = mk(eng, 'a', sa); b = mk(eng, 'b', sb)
    if lt(a, b): eng.check(LE(a, b), 'O3: a<b is True but t+a > t+b for some t')
def otot(eng, sa, sb):
    a = mk(eng, 'a', sa); b = mk(eng, 'b', sb)
    r = lt(a, b); r2 = lt(b, a)
    strict = z3.And(LE(a, b), z3.Not(LE(b, a)))
    if r is None or r2 is None: eng.check(z3.Not(z3.Or(LE(a, b), LE(b, a))), 'Otot: incomparable-assertion on a pointwise comparable pair'); return
    if not r: eng.check(z3.Not(strict), 'Otot: a strictly below b pointwise but a<b is False')
    if r2: eng.check(z3.Not(strict), 'Otot: a strictly below b pointwise but b<a is True')
def otrans(eng, sa, sb, sc):
    a = mk(eng, 'a', sa); b = mk(eng, 'b', sb); c = mk(eng, 'c', sc)
    if lt(a, b) and lt(b, c):
        r = lt(a, c)
        eng.check(r is True, 'Otrans: a<b, b<c but not a<c')
run('O3 monotone', o3, S, S)
run('Otot totality/strictness on comparable', otot, S, S)
run('Otrans', otrans, S, S, S)

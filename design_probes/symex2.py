"""Probe v2: non-int-subclass proxies, n-ary decisions, model-driven concretisation."""
import z3, time

class PathCut(BaseException): pass
class Unsupported(Exception): pass

class Violation(Exception):
    def __init__(self, what, model):
        super().__init__(what); self.what = what; self.model = model

ENGINE = None

class Engine:
    def __init__(self):
        self.solver = z3.Solver(); self.solver.set('timeout', 10000)
        self.prefix = []; self.trace = []; self.pos = 0; self.nvars = 0
        self.solver_calls = 0; self.paths = 0; self.solver_s = 0.0
        self.violations = []

    def fresh_int(self, name, lo=None, hi=None):
        v = z3.Int(f"{name}#{self.nvars}"); self.nvars += 1
        if lo is not None: self.solver.add(v >= lo)
        if hi is not None: self.solver.add(v <= hi)
        return SymInt(v)
    def fresh_real(self, name, lo=None):
        v = z3.Real(f"{name}#{self.nvars}"); self.nvars += 1
        if lo is not None: self.solver.add(v >= lo)
        return SymReal(v)
    def fresh_bool(self, name):
        v = z3.Bool(f"{name}#{self.nvars}"); self.nvars += 1
        return SymBool(v)
    def fresh_bv(self, name, n):
        v = z3.BitVec(f"{name}#{self.nvars}", n); self.nvars += 1
        return v

    def _check(self, *es):
        t0 = time.time(); self.solver_calls += 1
        self.solver.push()
        for e in es: self.solver.add(e)
        r = str(self.solver.check())
        m = self.solver.model() if r == 'sat' else None
        self.solver.pop(); self.solver_s += time.time() - t0
        if r == 'unknown': raise Unsupported('solver unknown')
        return r == 'sat', m

    def decide(self, conds):
        if self.pos < len(self.prefix):
            feas, chosen = self.prefix[self.pos]
        else:
            feas = [i for i, c in enumerate(conds) if self._check(c)[0]]
            assert feas, "no feasible branch"
            chosen = feas[0]
        self.trace.append((feas, chosen)); self.pos += 1
        if len(feas) > 1: self.solver.add(conds[chosen])
        return chosen

    def branch(self, e):
        e = z3.simplify(e)
        if z3.is_true(e): return True
        if z3.is_false(e): return False
        return self.decide([e, z3.Not(e)]) == 0

    def concretize(self, e):
        """decide a concrete value for int term e; enumerates feasible values via models."""
        e = z3.simplify(e)
        if z3.is_int_value(e): return e.as_long()
        # replay
        if self.pos < len(self.prefix):
            vals, chosen = self.prefix[self.pos]
            self.trace.append((vals, chosen)); self.pos += 1
            self.solver.add(e == chosen); return chosen
        vals = []
        while True:
            ok, m = self._check(*[e != v for v in vals])
            if not ok: break
            vals.append(m.eval(e, model_completion=True).as_long())
            if len(vals) > 64: raise Unsupported(f'unbounded concretisation of {e}')
        chosen = vals[0]
        self.trace.append((vals, chosen)); self.pos += 1
        self.solver.add(e == chosen)
        return chosen

    def choose(self, n):
        if n == 1: return 0
        c = self.fresh_int('choice', 0, n - 1)
        return self.concretize(c.e)

    def check(self, e, what):
        if isinstance(e, SymBool): e = e.e
        if isinstance(e, bool): e = z3.BoolVal(e)
        e = z3.simplify(e)
        if z3.is_true(e): return True
        ok, m = self._check(z3.Not(e))
        if ok:
            self.violations.append((what, m)); raise Violation(what, m)
        self.solver.add(e); return True

    def explore(self, fn, max_paths=10**9, budget_s=10**9):
        global ENGINE
        ENGINE = self
        t0 = time.time(); self.prefix = []; results = []
        while True:
            self.solver.reset(); self.solver.set('timeout', 10000)
            self.trace = []; self.pos = 0; self.nvars = 0
            try: results.append(('ok', fn(self)))
            except Violation as v: results.append(('violation', v))
            except PathCut: results.append(('cut', None))
            self.paths += 1
            tr = self.trace
            while tr:
                feas, chosen = tr[-1]; idx = feas.index(chosen)
                if idx + 1 < len(feas): tr[-1] = (feas, feas[idx + 1]); break
                tr.pop()
            if not tr or self.paths >= max_paths or time.time() - t0 > budget_s:
                return results, (not tr)
            self.prefix = list(tr)

def _ie(x):
    if isinstance(x, SymInt): return x.e
    if isinstance(x, SymReal): return x.e
    if type(x) is bool: return z3.IntVal(int(x))
    if type(x) is int: return z3.IntVal(x)
    if type(x) is float:
        return z3.RealVal(repr(x)) if x == x and abs(x) != float('inf') else None
    return None

class SymBool:
    __slots__ = ('e',)
    def __init__(self, e): self.e = e
    def __bool__(self): return ENGINE.branch(self.e)
    def __repr__(self): return f"<SymBool {self.e}>"

def _cmp(op):
    def f(self, o):
        oe = _ie(o)
        if oe is None: return NotImplemented
        return SymBool(op(self.e, oe))
    return f
def _ar(op, swap=False, real=False):
    def f(self, o):
        oe = _ie(o)
        if oe is None: return NotImplemented
        a, b = (oe, self.e) if swap else (self.e, oe)
        if real:
            a = z3.ToReal(a) if a.sort() == z3.IntSort() else a
            b = z3.ToReal(b) if b.sort() == z3.IntSort() else b
        r = z3.simplify(op(a, b))
        return SymReal(r) if r.sort() == z3.RealSort() else SymInt(r)
    return f

class _Num:
    __slots__ = ('e',)
    def __init__(self, e): self.e = e
    __lt__ = _cmp(lambda a, b: a < b); __le__ = _cmp(lambda a, b: a <= b)
    __gt__ = _cmp(lambda a, b: a > b); __ge__ = _cmp(lambda a, b: a >= b)
    __eq__ = _cmp(lambda a, b: a == b); __ne__ = _cmp(lambda a, b: a != b)
    __add__ = _ar(lambda a, b: a + b); __radd__ = _ar(lambda a, b: a + b, True)
    __sub__ = _ar(lambda a, b: a - b); __rsub__ = _ar(lambda a, b: a - b, True)
    __mul__ = _ar(lambda a, b: a * b); __rmul__ = _ar(lambda a, b: a * b, True)
    __truediv__ = _ar(lambda a, b: a / b, real=True); __rtruediv__ = _ar(lambda a, b: a / b, True, real=True)
    def __neg__(self): return type(self)(-self.e)
    def __pos__(self): return self
    def __bool__(self): return ENGINE.branch(self.e != 0)
    def __repr__(self): return f"<{z3.simplify(self.e)}>"
    __str__ = __repr__
    def __format__(self, spec): return repr(self)
    def __copy__(self): return self
    def __deepcopy__(self, memo): return self
    def __getattr__(self, name): raise Unsupported(f'{type(self).__name__}.{name}')

class SymInt(_Num):
    __slots__ = ()
    @property
    def __class__(self): return int
    def __hash__(self): return hash(ENGINE.concretize(self.e))
    def __index__(self): return ENGINE.concretize(self.e)
    def __int__(self): return ENGINE.concretize(self.e)
    def __floordiv__(self, o): raise Unsupported('floordiv')
    def __mod__(self, o): raise Unsupported('mod')

class SymReal(_Num):
    __slots__ = ()
    @property
    def __class__(self): return float
    def __hash__(self): raise Unsupported('hash of SymReal')
    def __float__(self): raise Unsupported('float() of SymReal')
    def __ceil__(self):
        # ceil(x) = -floor(-x)
        return SymInt(z3.simplify(-z3.ToInt(-self.e)))
    def __floor__(self): return SymInt(z3.simplify(z3.ToInt(self.e)))

# concrete confirmations of predicted C18 / C13 items
import random, copy, asyncio
from mosaik import util
class W:
    def __init__(self): self.calls = []
    def connect(self, s, d, *a, **k): self.calls.append((s, d))
for seed in range(5):
    random.seed(seed); w = W()
    try:
        r = util.connect_randomly(w, ['s0', 's1'], ['d0'], 'a', evenly=False, max_connects=2)
        print('C18 exact capacity ok', r, w.calls)
    except AssertionError as e:
        print('C18 exact capacity: AssertionError after', len(w.calls), 'connects'); break
import mosaik, mosaik_api_v3
from loguru import logger; logger.remove()
META = {'api_version': '3.0', 'type': 'time-based', 'models': {'M': {'public': True, 'params': [], 'attrs': ['i', 'o']}}}
class Sim(mosaik_api_v3.Simulator):
    def __init__(self): super().__init__(copy.deepcopy(META))
    def init(self, sid, time_resolution): return self.meta
    def create(self, num, model): return [{'eid': 'e', 'type': model}]
    def step(self, time, inputs, max_advance): return None
    def get_data(self, outputs): return {}
w = mosaik.World({'S': {'python': '__main__:Sim'}}, skip_greetings=True)
w.start('S', sim_id='Culprit').M()
try: w.run(until=2, print_progress=False)
except BaseException as e: print('C13 time-based None ->', type(e).__name__, repr(str(e)))

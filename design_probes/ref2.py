import sys, copy; sys.argv=['x']
import ref
from ref import *
import mosaik_api_v3
# totals over repo scenarios
from tests.scenarios.conftest import SIM_CONFIG
import glob, os, importlib
os.chdir('/repo')
steps = inputs = nonempty = 0
for f in sorted(glob.glob('/repo/tests/scenarios/test_*.py')):
    src = open(f).read()
    if 'Remote' in src or 'rt_factor' in src: continue
    mod = importlib.import_module('tests.scenarios.' + os.path.basename(f)[:-3])
    ref.REF = Ref(); w = RWorld(SIM_CONFIG, debug=True, cache=True, skip_greetings=True)
    mod.create_scenario(w)
    import inspect, re
    m = re.search(r'until=(\w+)', inspect.getsource(mod.test_scenario))
    until = int(m.group(1)) if m.group(1).isdigit() else getattr(mod, m.group(1))
    w.run(until=until, print_progress=False)
    steps += ref.REF.steps; inputs += ref.REF.checked_inputs
    nonempty += sum(1 for c in ref.REF.conns if c['produced'])
    assert not ref.REF.alarms
print('total steps checked', steps, 'input dicts compared', inputs, 'connections with data', nonempty)
# P5 scenario must alarm
META = {'api_version': '3.0', 'type': 'time-based', 'models': {'M': {'public': True, 'params': [], 'attrs': ['i', 'o']}}}
class Sim(mosaik_api_v3.Simulator):
    def __init__(self): super().__init__(copy.deepcopy(META))
    def init(self, sid, time_resolution, size=1): self.sid=sid; self.size=size; return self.meta
    def create(self, num, model): return [{'eid':'e','type':model}]
    def step(self, time, inputs, max_advance): self.t=time; return time+self.size
    def get_data(self, outputs): return {'e': {'o': f'{self.sid}@{self.t}'}}
import __main__; __main__.Sim = Sim
for cache in (True, False):
    ref.REF = Ref(); w = RWorld({'S': {'python': '__main__:Sim'}}, cache=cache, skip_greetings=True)
    a = w.start('S', sim_id='A', size=2).M(); b = w.start('S', sim_id='B', size=1).M()
    w.connect(a, b, ('o','i'), time_shifted=True, initial_data={'o': 'init'})
    w.run(until=3, print_progress=False)
    print('P5 cache', cache, 'alarms:', ref.REF.alarms)

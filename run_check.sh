#!/bin/bash
# usage: run_check.sh <property id> <quick|thorough> [extra args for vk.check]
HERE="$(cd "$(dirname "$0")" && pwd)"
cd "$HERE"
./ensure_env.sh || { echo "HARNESS-ERROR: environment setup failed"; exit 3; }
export PYTHONHASHSEED=0
export PYTHONDONTWRITEBYTECODE=1
REPO="${VK_REPO:-/repo}"
export PYTHONPATH="$HERE:$REPO"
export MOSAIK_VERIF=1
ID="$1"; TIER="${VERIF_TIER:-$2}"; shift; shift
exec "$HERE/.venv/bin/python" -m vk.check "$ID" "$TIER" "$@"

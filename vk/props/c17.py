"""C17 Real-time pacing and external events."""
from vk import common, sysrun
from vk.kernels import c17 as K


def run(rep, tier, seed, args):
    jobs = K.jobs(tier)
    rep.rule = ('one case = one explored path of the real World.run(rt_factor=...) on a virtual clock: the solver decides which timer or parked reply or external event '
                'comes next and the symbolic timer lateness / reply latency / event time, for enumerated rt_factor x time_resolution x grouping x number of simulators; '
                'non-trivial = the run was started (and, in event runs, the event was injected in the future of the simulator)')
    rep.bounds = {'rt_factor': ['1/2', '1', '3'], 'time_resolution': ['1', '1/2'], 'simulators': '<= 2', 'until': '3 (event runs 4)', 'timer lateness': '<= rt_factor*time_resolution/4 where allowed',
                  'external events': '<= 1 per run, event time an unbounded symbolic int, injection instant chosen by the solver',
                  'outside': 'IEEE-754 rounding of the real-time arithmetic (the clock is a real number), past event times, more simulators'}
    rep.assumptions = list(sysrun.STUBS) + ['scheduler.perf_counter and loop.time() read one virtual clock (a real, not a float) that only the oracle advances; the selector never blocks; the asyncio timer heap is the real one',
                                           '"answers instantly" is read as zero reply latency and exact timers', 'rt_factor and time_resolution are rational numerals so that rt_passed/rt_factor stays linear']
    rep.add_jobs(common.run_jobs(jobs))

import asyncio, copy, mosaik, mosaik_api_v3, warnings
from loguru import logger; logger.remove()
META = {'api_version': '3.0', 'type': 'time-based', 'models': {'M': {'public': True, 'params': [], 'attrs': ['i', 'o']}}}
LOG=[]
class Sim(mosaik_api_v3.Simulator):
    def __init__(self): super().__init__(copy.deepcopy(META))
    def init(self, sid, time_resolution, slow=0.0, crash_at=None):
        self.sid=sid; self.slow=slow; self.crash_at=crash_at; return self.meta
    def create(self, num, model): return [{'eid':'e','type':model}]
    def step(self, time, inputs, max_advance):
        LOG.append(('step', self.sid, time))
        if self.slow: yield asyncio.sleep(self.slow)
        if self.crash_at == time: raise RuntimeError('boom')
        LOG.append(('stepdone', self.sid, time))
        return time+1
    def get_data(self, outputs): return {'e': {'o': 1}}
    def finalize(self): LOG.append(('finalize', self.sid))
class L(asyncio.SelectorEventLoop):
    def close(self):
        LOG.append(('close', [t.get_name() for t in asyncio.all_tasks(self) if not t.done()]))
        super().close()
loop = L()
w = mosaik.World({'S': {'python': '__main__:Sim'}}, skip_greetings=True, asyncio_loop=loop)
a = w.start('S', sim_id='A', slow=0.3).M()
b = w.start('S', sim_id='B', slow=0.1, crash_at=1).M()
c = w.start('S', sim_id='C', slow=0.05).M()
try:
    w.run(until=5, print_progress=False)
except Exception as e:
    print('run raised', type(e).__name__, e)
for l in LOG: print(l)

import asyncio, copy
class P:
    __slots__=('e',)
    def __init__(s,e): s.e=e
    @property
    def __class__(self): return int
    def __index__(self): print('index called'); return 2
    def __hash__(self): print('hash called'); return hash(2)
    def __eq__(self,o): print('eq called'); return True
    def __add__(self,o): return P(('+',self.e,o))
    __radd__=__add__
x=P('x')
print(isinstance(x,int), type(x).__name__)
print([0]*x, list(range(x)), [5,6,7][x])
print(sum([1, x, 3]).e)
d={2:'a'}; print(d[x])
import json
try: json.dumps({'t': x})
except TypeError as e: print('json loud:', e)
import math
try: math.ceil(x)
except TypeError as e: print('ceil loud:', e)

# starter override probe
import mosaik, mosaik_api_v3
from mosaik import simmanager
from mosaik.proxies import LocalProxy
from loguru import logger; logger.remove()
LOG=[]
class OracleProxy(LocalProxy):
    async def send(self, request):
        LOG.append(('req', request[0], request[1][:1]))
        r = await super().send(request)
        await asyncio.sleep(0)
        LOG.append(('rep', request[0], r if request[0] in ('step','get_data') else None))
        return r
async def my_inproc(mosaik_config, sim_name, sim_config, mosaik_remote):
    base = await simmanager.start_inproc(mosaik_config, sim_name, sim_config, mosaik_remote)
    return OracleProxy(base.sim, mosaik_remote)
starters = simmanager.StarterCollection()
starters['python'] = my_inproc
import sys; sys.path.insert(0, '/repo')
w = mosaik.World({'G': {'python': 'tests.simulators.generic_test_simulator:TestSim'}}, skip_greetings=True)
a = w.start('G', sim_id='A').A(); b = w.start('G', sim_id='B').A()
w.connect(a, b, ('val_out','val_in'))
w.run(until=2, print_progress=False)
print(LOG[:12])

"""C18 kernel: connect_randomly / connect_many_to_one with a solver-driven RNG.

mosaik.util.random is rebound to a source whose randint() returns a fresh symbolic int
in [a, b] and whose shuffle() applies a permutation chosen by the engine: every RNG
outcome is covered, which subsumes every seed."""
from __future__ import annotations

import contextlib

import z3

from vk.engine import term


class Rng:
    def __init__(self, eng):
        self.eng = eng
        self.n = 0

    def randint(self, a, b):
        self.n += 1
        if self.eng.mode == 'sym':
            # randint(a, b) with b < a raises ValueError in CPython
            if bool(b < a):
                raise ValueError('empty range for randrange()')
        elif b < a:
            raise ValueError('empty range for randrange()')
        return self.eng.int(f'rand{self.n}', a, b)

    def shuffle(self, lst):
        # Fisher-Yates with engine-chosen indices: all permutations reachable
        self.n += 1
        for i in range(len(lst) - 1, 0, -1):
            j = self.eng.choose(i + 1, f'shuffle{self.n}')
            lst[i], lst[j] = lst[j], lst[i]


class Recorder:
    def __init__(self):
        self.calls = []

    def connect(self, src, dest, *attrs, **kw):
        self.calls.append((src, dest, attrs, kw))


@contextlib.contextmanager
def patched(eng):
    import mosaik.util as U
    saved = U.random
    U.random = Rng(eng)
    try:
        yield
    finally:
        U.random = saved


def randomly(ns, nd, evenly, mc, mode='plain'):
    """mc: 'inf' | 'sym' | int.  mode: 'plain' (fresh lists) | 'alias' (the same list object is source and destination set,
    a peer topology) | 'twocall' (a capped random call first, then the call under test with the same list objects: the
    destination set of the second call is the one the caller built)"""
    def h(eng):
        import mosaik.util as U
        src_names = [f's{i}' for i in range(ns)]
        dest_names = [f'd{i}' for i in range(nd)]
        if mode == 'alias':
            src_names = dest_names
            src_obj = dest_obj = list(dest_names)
        elif mode == 'entities':
            # real mosaik.scenario.Entity objects of TWO simulator instances of one simulator whose entity ids coincide
            # (Sim-0.D0, Sim-1.D0, Sim-0.D1, ...): the helper must keep them apart
            from mosaik.scenario import Entity
            src_names = [f'Src-{i % 2}.S{i // 2}' for i in range(ns)]
            dest_names = [f'Sim-{i % 2}.D{i // 2}' for i in range(nd)]
            src_obj = [Entity(n.split('.')[0], n.split('.')[1], 'Src', None, []) for n in src_names]
            dest_obj = [Entity(n.split('.')[0], n.split('.')[1], 'Sim', None, []) for n in dest_names]
        elif mode == 'tuple':    # immutable sequences (the helper must not rely on mutating its arguments)
            src_obj, dest_obj = tuple(src_names), tuple(dest_names)
        elif mode == 'destiter':  # the destination set as a one-shot iterable (documented as "iterables"; the helper copies it)
            src_obj, dest_obj = list(src_names), iter(list(dest_names))
        else:
            src_obj, dest_obj = list(src_names), list(dest_names)
        fp = [ns, nd, evenly, mc if mc != 'sym' else 'sym'] + ([mode] if mode != 'plain' else [])

        def call(tag, evenly, mc):
            w = Recorder()
            kw = {}
            maxc = None
            if mc == 'sym':
                maxc = eng.int(f'max_connects{tag}', 1)
                # documented precondition: enough capacity
                eng.assume(len(src_names) <= nd * maxc)
                kw['max_connects'] = maxc
            elif mc != 'inf':
                maxc = mc
                kw['max_connects'] = mc
            try:
                ret = U.connect_randomly(w, src_obj, dest_obj, 'a', ('b', 'c'), evenly=evenly, **kw)
            except Exception as e:  # noqa
                eng.alarm('C18.exception', f'connect_randomly raised {type(e).__name__}: {e} after {len(w.calls)} connections; '
                          f'src={ns} dest={nd} evenly={evenly} max_connects={maxc} mode={mode}{tag}',
                          {'fp': fp + [type(e).__name__], 'exc': type(e).__name__, 'made': len(w.calls), 'ns': ns})
                return None
            counts = {d: 0 for d in dest_names}
            seen = []
            what = f' (mode={mode}{tag})' if mode != 'plain' else ''
            name = (lambda x: x.full_id) if mode == 'entities' else (lambda x: x)
            n_ret = len(ret)
            ret = {name(x) for x in ret}
            eng.check(len(ret) == n_ret, 'C18.returned', f'the returned set holds {n_ret} objects for {len(ret)} distinct entities{what}', {'fp': fp + ['dup']})
            for (s, d, attrs, k) in [(name(c[0]), name(c[1]), c[2], c[3]) for c in w.calls]:
                seen.append(s)
                eng.check(d in counts, 'C18.dest', f'connected to {d!r} which is not in the destination set{what}', {'fp': fp})
                counts[d] = counts.get(d, 0) + 1
                eng.check(attrs == ('a', ('b', 'c')), 'C18.attrs', 'attribute pairs not passed through', {'fp': fp})
            eng.check(sorted(seen) == sorted(src_names), 'C18.once', f'sources connected {seen}, expected each of {src_names} exactly once{what}',
                      {'fp': fp})
            vals = list(counts.values())
            if evenly:
                eng.check(max(vals) - min(vals) <= 1, 'C18.even', f'evenly=True but connection counts over {dest_names} are {vals}{what}', {'fp': fp})
            elif maxc is not None:
                for d, c in counts.items():
                    eng.check(c <= maxc, 'C18.max', f'{d} received {c} connections, max_connects={maxc}{what}', {'fp': fp})
            eng.check(set(ret) == {d for d, c in counts.items() if c > 0}, 'C18.returned',
                      f'returned {sorted(ret)} but connected destinations are {sorted(d for d, c in counts.items() if c > 0)}{what}', {'fp': fp})
            return vals

        with patched(eng):
            if mode == 'twocall':
                if call('/1st', False, 'sym') is None:
                    return ('exception', {'nontrivial': True})
            vals = call('', evenly, mc)
            if vals is None:
                return ('exception', {'nontrivial': True})
        return ('ok', {'nontrivial': ns > 0, 'counts': vals})
    return h


def many_to_one(ns, kind='list'):
    """kind: the container handed over as src_set, which is declared Iterable[Entity]: list | tuple | iter (one-shot
    iterator) | gen (generator expression) | chain (itertools.chain of two lists, as in docs/scenario-definition.rst)"""
    def h(eng):
        import itertools
        import mosaik.util as U
        src = [f's{i}' for i in range(ns)]
        arg = {'list': lambda: list(src), 'tuple': lambda: tuple(src), 'iter': lambda: iter(list(src)),
               'gen': lambda: (x for x in list(src)), 'chain': lambda: itertools.chain(src[:ns // 2], src[ns // 2:])}[kind]()
        w = Recorder()
        ar = eng.flag('async_requests')
        try:
            U.connect_many_to_one(w, arg, 'dest', 'a', ('b', 'c'), async_requests=ar)
        except Exception as e:  # noqa
            eng.alarm('C18.many', f'connect_many_to_one raised {type(e).__name__}: {e} for a {kind} of {ns} sources', {'fp': [kind, 'exc']})
            return ('exception', {'nontrivial': True})
        eng.check([c[0] for c in w.calls] == src and all(c[1] == 'dest' for c in w.calls), 'C18.many',
                  f'not every source connected to the destination: src_set is a {kind} of {src}, connect calls {[c[:2] for c in w.calls]}', {'fp': [kind, 'calls']})
        eng.check(all(c[2] == ('a', ('b', 'c')) and c[3] == {'async_requests': ar} for c in w.calls), 'C18.many', 'arguments not passed through', {'fp': [kind, 'args']})
        return ('ok', {'nontrivial': True})
    return h


def jobs(tier):
    q = tier == 'quick'
    max_s, max_d = (4, 3) if q else (7, 4)
    out = []
    for ns in range(0, max_s + 1):
        for nd in range(1, max_d + 1):
            out.append({'id': f'even|{ns}|{nd}', 'harness': 'vk.kernels.c18:randomly', 'params': {'ns': ns, 'nd': nd, 'evenly': True, 'mc': 'inf'}})
            for mc in ('inf', 'sym'):
                out.append({'id': f'rand|{ns}|{nd}|{mc}', 'harness': 'vk.kernels.c18:randomly',
                            'params': {'ns': ns, 'nd': nd, 'evenly': False, 'mc': mc}, 'budget_s': 300})
    # the same list as source and destination set (peers), and list objects reused for a second call
    for nd in range(1, (3 if q else 4) + 1):
        for evenly, mc in ((True, 'inf'), (False, 'inf'), (False, 'sym')):
            out.append({'id': f'alias|{nd}|{int(evenly)}|{mc}', 'harness': 'vk.kernels.c18:randomly',
                        'params': {'ns': nd, 'nd': nd, 'evenly': evenly, 'mc': mc, 'mode': 'alias'}, 'budget_s': 300})
    for ns in range(1, (3 if q else 5) + 1):
        for nd in range(2, (3 if q else 4) + 1):
            for evenly, mc in ((True, 'inf'), (False, 'inf'), (False, 'sym')):
                out.append({'id': f'entities|{ns}|{nd}|{int(evenly)}|{mc}', 'harness': 'vk.kernels.c18:randomly',
                            'params': {'ns': ns, 'nd': nd, 'evenly': evenly, 'mc': mc, 'mode': 'entities'}, 'budget_s': 300})
    for ns in range(0, (3 if q else 4) + 1):
        for nd in range(1, (2 if q else 3) + 1):
            for evenly, mc in ((True, 'inf'), (False, 'sym')):
                for mode in ('tuple', 'destiter'):
                    out.append({'id': f'{mode}|{ns}|{nd}|{int(evenly)}|{mc}', 'harness': 'vk.kernels.c18:randomly',
                                'params': {'ns': ns, 'nd': nd, 'evenly': evenly, 'mc': mc, 'mode': mode}, 'budget_s': 300})
    for ns in range(1, (3 if q else 4) + 1):
        for nd in range(2, (3 if q else 4) + 1):
            for evenly, mc in ((True, 'inf'), (False, 'sym')):
                if ns == 4 and nd == 4 and mc == 'sym':
                    continue     # two capped random calls over 4 x 4 do not finish within the budget
                out.append({'id': f'twocall|{ns}|{nd}|{int(evenly)}|{mc}', 'harness': 'vk.kernels.c18:randomly',
                            'params': {'ns': ns, 'nd': nd, 'evenly': evenly, 'mc': mc, 'mode': 'twocall'}, 'budget_s': 300})
    for ns in range(0, 4 if q else 6):
        for kind in ('list', 'tuple', 'iter', 'gen', 'chain'):
            out.append({'id': f'many|{ns}|{kind}', 'harness': 'vk.kernels.c18:many_to_one', 'params': {'ns': ns, 'kind': kind}})
    return out

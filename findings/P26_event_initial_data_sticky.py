import sys, mosaik, mosaik_api_v3
LOG = []
class Src(mosaik_api_v3.Simulator):
    """hybrid, emits the event 'ev' only at time 2"""
    def __init__(self):
        super().__init__({'type': 'hybrid', 'models': {'M': {'public': True, 'params': [], 'attrs': ['ev'], 'non-persistent': ['ev']}}})
    def init(self, sid, time_resolution): return self.meta
    def create(self, num, model): return [{'eid': 'e', 'type': model}]
    def step(self, time, inputs, max_advance): self.t = time; return time + 1
    def get_data(self, outputs): return {'e': {'ev': 'event@2'}} if self.t == 2 else {}
class Dst(mosaik_api_v3.Simulator):
    def __init__(self):
        super().__init__({'type': 'time-based', 'models': {'M': {'public': True, 'params': [], 'attrs': ['x']}}})
    def init(self, sid, time_resolution): return self.meta
    def create(self, num, model): return [{'eid': 'e', 'type': model}]
    def step(self, time, inputs, max_advance): LOG.append((time, inputs.get('e', {}).get('x', {}).get('S.e'))); return time + 1
    def get_data(self, outputs): return {}
cache = sys.argv[1] == '1'
w = mosaik.World({'S': {'python': '__main__:Src'}, 'D': {'python': '__main__:Dst'}}, skip_greetings=True, cache=cache)
s = w.start('S', sim_id='S').M(); d = w.start('D', sim_id='D').M()
w.connect(s, d, ('ev', 'x'), time_shifted=1, initial_data={'ev': 'INIT'})
w.run(until=6, print_progress=False)
print('cache', cache, LOG)

"""C08 Order-consistent delay arithmetic for grouped (tiered) time."""
from vk import common
from vk.kernels import c08 as K


def run(rep, tier, seed, args):
    jobs = K.jobs(tier)
    maxlen = 3 if tier == 'quick' else 4
    rep.rule = ('one case = one path of the real TieredInterval/TieredTime operators for one shape combination '
                '(pre_length, cutoff, len) with all tier values symbolic (unbounded ints >= 0); non-trivial = the path '
                'reached at least one obligation O1..O6 with a satisfiable path condition; paths are distinct by '
                'construction (disjoint path conditions)')
    rep.bounds = {'tiers_per_delay': f'<= {maxlen} (pairs, addtime), <= 3 (triples), <= {2 if tier == "quick" else 3} (associativity)',
                  'tier_values': 'unbounded integers >= 0 (symbolic)', 'outside': 'deeper group nesting than the stated number of tiers; negative tiers'}
    rep.assumptions = ['tier values are >= 0 (delays are sums of time shifts and weak hops; times start at 0)',
                       'comparable / smaller are defined by the action on all times t >= 0 (quantifier-free recursion, validated against the expanded definition on a box by the le_oracle_validation jobs)',
                       'functools.total_ordering, dataclasses, tuple comparison and min() are executed for real (CPython trusted)',
                       'z3 (python wheel 5.1.0) trusted']
    res = common.run_jobs(jobs)
    rep.add_jobs(res)

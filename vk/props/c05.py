"""C05 (system runs; see vk/props/sysprops.py and DESIGN.md section 5)."""
from vk.props import sysprops


def run(rep, tier, seed, args):
    sysprops.run_plan(rep, 'C05', tier, seed)

"""C17 Real-time pacing and external events."""
from vk import common, sysrun
from vk.kernels import c17 as K


def run(rep, tier, seed, args):
    jobs = K.jobs(tier)
    rep.rule = ('one case = one explored path of the real World.run(rt_factor=...) on a virtual clock: the solver decides which timer or parked reply or external event '
                'comes next and the symbolic timer lateness / reply latency / event time, for enumerated rt_factor x time_resolution x grouping x number of simulators; '
                'non-trivial = the run was started (and, in event runs, the event was injected in the future of the simulator)')
    rep.bounds = {'rt_factor': ['1/2', '1', '3'], 'time_resolution': ['1', '1/2'], 'simulators': '<= 2', 'until': '3 (event runs 4)', 'timer lateness': '<= rt_factor*time_resolution/4 where allowed',
                  'external events': '<= 1 per run (2-3 pending at once in the multi-event jobs), event time an unbounded symbolic int, injection instant chosen by the solver',
                  'outside': 'IEEE-754 rounding of the real-time arithmetic (the clock is a real number; one QF_FP side lemma about ceil(rt_passed / rt_factor) is reported in side_results.fp_lemma), past event times, more simulators'}
    rep.assumptions = list(sysrun.STUBS) + ['scheduler.perf_counter and loop.time() read one virtual clock (a real, not a float) that only the oracle advances; the selector never blocks; the asyncio timer heap is the real one',
                                           '"answers instantly" is read as zero reply latency and exact timers', 'rt_factor and time_resolution are rational numerals so that rt_passed/rt_factor stays linear']
    res = common.run_jobs(jobs)
    rep.add_jobs(res)
    # IEEE side lemma (vk.kernels.c17:fp_lemma): verdict per format and constant, reported apart from the real-clock runs
    fp = {}
    for r in res:
        if r['id'].startswith('fp_lemma|') and not r['error']:
            fp[r['id'][9:]] = {'verdict': ','.join(sorted(k[3:] for k in r['outcomes'])), 'seconds': r['wall_s']}
    rep.side['fp_lemma'] = {'statement': 'finite a >= 0, f > 0, integer c: RNE(a / f) > c implies a > f * c exactly (so ceil(rt_passed / rt_factor) >= t implies '
                                         'rt_passed > rt_factor * (t - 1) in IEEE arithmetic too)', 'engine': 'z3 5.1 QF_FP, exact product in a wider format',
                            'results': fp}
    if any(v['verdict'] == 'fp-lemma-sat' for v in fp.values()):
        rep.notes.append('the IEEE side lemma has a counterexample (see side_results.fp_lemma); the pacing claim is stated for a real-valued clock')

import asyncio, sys, time, copy, warnings
import z3
import symex
from symex import Engine, SymInt, SymBool, Violation
import mosaik, mosaik_api_v3
from loguru import logger
logger.remove()
warnings.simplefilter('ignore')

class Deadlock(Exception): pass

class OracleLoop(asyncio.SelectorEventLoop):
    def __init__(self, eng, every_iteration=False):
        super().__init__()
        self.eng = eng; self.pending = []; self.every = every_iteration
        self.log = []
    def _run_once(self):
        if not self._ready and not self._scheduled:
            if not self.pending:
                raise Deadlock()
            i = self.eng.choose(len(self.pending))
            sid, kind, fut = self.pending.pop(i)
            self.log.append(('deliver', sid, kind))
            fut.set_result(None)
        super()._run_once()
    def wait(self, sid, kind):
        fut = self.create_future(); self.pending.append((sid, kind, fut)); return fut

META = {'api_version': '3.0', 'type': 'event-based', 'models': {'M': {'public': True, 'params': [], 'attrs': ['i', 'o'], 'trigger': ['i']}}}

class Sim(mosaik_api_v3.Simulator):
    def __init__(self):
        super().__init__(copy.deepcopy(META))
    def init(self, sid, time_resolution, typ='event-based', ctx=None):
        self.sid = sid; self.meta['type'] = typ; self.ctx = ctx; self.typ = typ; self.n = 0
        if typ in ('time-based', 'event-based'):
            self.meta['models']['M'].pop('trigger')
        return self.meta
    def create(self, num, model):
        return [{'eid': 'e', 'type': model}]
    def step(self, time, inputs, max_advance):
        ctx = self.ctx; eng = ctx['eng']; loop = ctx['loop']
        loop.log.append(('step', self.sid, time, max_advance))
        self.t = time; k = self.n; self.n += 1
        if k >= ctx['maxsteps']:
            raise symex.Abort()
        yield loop.wait(self.sid, 'step')
        until = ctx['until']
        if self.typ == 'time-based':
            d = eng.fresh_int(f'{self.sid}.d{k}', 1, until + 1)
            return time + d
        has = eng.fresh_bool(f'{self.sid}.self{k}')
        if has:
            d = eng.fresh_int(f'{self.sid}.d{k}', 1, until + 1)
            return time + d
        return None
    def get_data(self, outputs):
        ctx = self.ctx; eng = ctx['eng']; loop = ctx['loop']
        yield loop.wait(self.sid, 'get')
        if self.typ == 'time-based':
            return {'e': {'o': self.n}}
        k = self.n
        has = eng.fresh_bool(f'{self.sid}.out{k}')
        if has:
            return {'e': {'o': self.n}}
        return {}

def scenario(eng):
    symex.ENGINE = eng
    loop = OracleLoop(eng)
    ctx = {'eng': eng, 'loop': loop, 'until': UNTIL, 'maxsteps': 4}
    w = mosaik.World({'S': {'python': '__main__:Sim'}}, skip_greetings=True, asyncio_loop=loop, cache=CACHE)
    try:
        a = w.start('S', sim_id='A', typ='hybrid', ctx=ctx).M()
        b = w.start('S', sim_id='B', typ='event-based', ctx=ctx).M()
        c = w.start('S', sim_id='C', typ='time-based', ctx=ctx).M()
        w.connect(a, b, ('o', 'i'))
        try:
            w.run(until=UNTIL, print_progress=False)
            return ('done', len(loop.log))
        except Deadlock:
            return ('deadlock', loop.log)
        except AssertionError as e:
            return ('assert', str(e), list(loop.log))
        except mosaik.exceptions.SimulationError as e:
            return ('simerr', str(e), list(loop.log))
    finally:
        if not loop.is_closed():
            loop.close()

if __name__ == '__main__':
    UNTIL = int(sys.argv[1]); CACHE = True
    eng = Engine()
    t0 = time.time()
    res, complete = eng.explore(scenario, budget_s=float(sys.argv[2]))
    dt = time.time() - t0
    from collections import Counter
    print(Counter(r[1][0] if r[0] == 'ok' else r[0] for r in res), 'complete', complete)
    print('paths', eng.paths, 'solver calls', eng.solver_calls, 'time', round(dt, 1), 'per path ms', round(1000 * dt / eng.paths, 1))
    for r in res:
        if r[0] == 'ok' and r[1][0] in ('assert', 'simerr', 'deadlock'):
            print(r[1]); break

import asyncio, sys, time, copy, warnings, itertools
import z3, symex
from symex import Engine, SymInt, SymBool, Violation
import mosaik, mosaik_api_v3
from loguru import logger
logger.remove(); warnings.simplefilter('ignore')
class Deadlock(Exception): pass
class OracleLoop(asyncio.SelectorEventLoop):
    def __init__(self, eng):
        super().__init__(); self.eng = eng; self.pending = []; self.log = []
    def _run_once(self):
        if not self._ready and not self._scheduled and not self._stopping:
            if not self.pending: raise Deadlock()
            i = self.eng.choose(len(self.pending))
            sid, kind, fut = self.pending.pop(i)
            fut.set_result(None)
        super()._run_once()
    def wait(self, sid, kind):
        fut = self.create_future(); self.pending.append((sid, kind, fut)); return fut
META = {'api_version': '3.0', 'type': 'event-based', 'models': {'M': {'public': True, 'params': [], 'attrs': ['i', 'o']}}}
class Sim(mosaik_api_v3.Simulator):
    def __init__(self): super().__init__(copy.deepcopy(META))
    def init(self, sid, time_resolution, typ='event-based', ctx=None):
        self.sid = sid; self.meta['type'] = typ; self.ctx = ctx; self.typ = typ; self.n = 0
        if typ == 'hybrid': self.meta['models']['M']['trigger'] = ['i']
        return self.meta
    def create(self, num, model): return [{'eid': 'e', 'type': model}]
    def step(self, time, inputs, max_advance):
        ctx = self.ctx; eng = ctx['eng']; loop = ctx['loop']
        loop.log.append(('step', self.sid, time, max_advance))
        self.t = time; k = self.n; self.n += 1
        if k >= ctx['maxsteps']: raise symex.Abort()
        yield loop.wait(self.sid, 'step')
        until = ctx['until']
        if self.typ == 'time-based':
            return time + eng.fresh_int(f'{self.sid}.d{k}', 1, until + 1)
        if eng.fresh_bool(f'{self.sid}.self{k}'):
            return time + eng.fresh_int(f'{self.sid}.d{k}', 1, until + 1)
        return None
    def get_data(self, outputs):
        ctx = self.ctx; eng = ctx['eng']; loop = ctx['loop']; k = self.n
        yield loop.wait(self.sid, 'get')
        if self.typ == 'time-based': return {'e': {'o': k}}
        if eng.fresh_bool(f'{self.sid}.out{k}'):
            if ctx['ot']:
                return {'time': self.t + eng.fresh_int(f'{self.sid}.ot{k}', 0, ctx['until']), 'e': {'o': k}}
            return {'e': {'o': k}}
        return {}
def scenario(eng):
    symex.ENGINE = eng
    loop = OracleLoop(eng)
    ctx = {'eng': eng, 'loop': loop, 'until': UNTIL, 'maxsteps': 5, 'ot': OT}
    w = mosaik.World({'S': {'python': '__main__:Sim'}}, skip_greetings=True, asyncio_loop=loop, cache=True)
    try:
        ents = {}
        for sid, typ in SIMS: ents[sid] = w.start('S', sim_id=sid, typ=typ, ctx=ctx).M()
        for s, d, kw in CONNS: w.connect(ents[s], ents[d], ('o', 'i'), **kw)
        for sid, typ in SIMS:
            if typ == 'event-based' and sid in INIT: w.set_initial_event(sid)
        try:
            w.run(until=UNTIL, print_progress=False)
            return ('done',)
        except Deadlock: return ('deadlock', list(loop.log))
        except AssertionError as e: return ('assert', str(e), list(loop.log))
        except mosaik.exceptions.SimulationError as e: return ('simerr', str(e), list(loop.log))
    finally:
        if not loop.is_closed(): loop.close()
TOPOS = {
 'chain3ev': ([('A','event-based'),('B','event-based'),('C','event-based')], [('A','B',{}),('B','C',{})], {'A'}),
 'tb2': ([('A','time-based'),('B','time-based')], [('A','B',{})], set()),
 'tbloop': ([('A','time-based'),('B','time-based')], [('A','B',{}),('B','A',dict(time_shifted=True, initial_data={'o': 0}))], set()),
 'hyb3': ([('A','hybrid'),('B','hybrid'),('C','time-based')], [('A','B',{}),('C','B',{})], set()),
}
if __name__ == '__main__':
    name = sys.argv[1]; UNTIL = int(sys.argv[2]); OT = int(sys.argv[3]); budget = float(sys.argv[4])
    SIMS, CONNS, INIT = TOPOS[name]
    import sys as _s; _s.stderr = open('/dev/null', 'w')
    eng = Engine(); t0 = time.time()
    res, complete = eng.explore(scenario, budget_s=budget)
    dt = time.time() - t0
    from collections import Counter
    print(name, UNTIL, OT, Counter(r[1][0] if r[0] == 'ok' else r[0] for r in res), 'complete', complete, 'paths', eng.paths, 'solver', eng.solver_calls, 'time', round(dt, 1), 'ms/path', round(1000 * dt / eng.paths, 1))
    for r in res:
        if r[0] == 'ok' and r[1][0] in ('assert', 'simerr', 'deadlock'):
            print('  first bad:', r[1]); break

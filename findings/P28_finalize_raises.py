# P28 (fixed in /repo): before the fix, a simulator whose finalize() raises aborted World.shutdown(): the simulators after it
# were never finalized and the event loop stayed open.  Run with: /venv/bin/python findings/P28_finalize_raises.py
import mosaik, mosaik_api_v3
LOG = []
class S(mosaik_api_v3.Simulator):
    def __init__(self):
        super().__init__({"api_version": "3.0", "type": "time-based", "models": {"M": {"public": True, "params": [], "attrs": ["x"]}}})
    def init(self, sid, time_resolution=1.0, bad=False, **kw):
        self.sid, self.bad = sid, bad
        return self.meta
    def create(self, num, model, **p): return [{"eid": "e", "type": "M"}]
    def step(self, time, inputs, max_advance): return time + 1
    def get_data(self, o): return {"e": {"x": 1}}
    def finalize(self):
        LOG.append(self.sid)
        if self.bad:
            raise RuntimeError("finalize failed")
w = mosaik.World({"S": {"python": "__main__:S"}}, skip_greetings=True)
a = w.start("S", sim_id="A", bad=True).M(); b = w.start("S", sim_id="B").M()
w.connect(a, b, "x")
try:
    w.run(until=2, print_progress=False)
except RuntimeError as e:
    print("run raised", e)
print("finalized:", LOG, "loop closed:", w.loop.is_closed())
assert LOG == ["A", "B"] and w.loop.is_closed(), "P28: shutdown aborted"
print("ok")

"""System runs: the real World / scheduler under a solver-driven event loop, with
symbolic simulators and the reference monitors (DESIGN.md 3.2 - 3.4)."""
from __future__ import annotations

import asyncio
import builtins
import contextlib
import copy
import logging
import os
import warnings

import mosaik
import mosaik_api_v3
from mosaik import scheduler, simmanager
from mosaik import scenario as sc
from mosaik.proxies import LocalProxy
from mosaik.exceptions import ScenarioError, SimulationError

from vk import engine as E
from vk.engine import PathCut
from vk.refmodel import Ref, SENT

logging.getLogger('asyncio').setLevel(logging.CRITICAL + 1)

CTX = {}
_REPO = __import__('os').environ.get('VK_REPO', '/repo').rstrip('/')


class Deadlock(Exception):
    pass


class Livelock(Exception):
    pass


# ---------------------------------------------------------------------------
# the oracle loop

class OracleLoop(asyncio.SelectorEventLoop):
    """Event loop whose only source of asynchrony is the list of parked simulator
    replies; the engine chooses which one is delivered next."""

    MAX_IDLE_ITER = 3000

    def __init__(self, eng, D=0, selector=None):
        super().__init__(selector)
        self.eng = eng
        self.pending = []
        self.active = False
        self.D = D
        self.deliveries = []
        self.iters_since = 0
        self.leaked = None
        self.verdict = None
        self.prefer = None
        self.on_deliver = None

    def _run_once(self):
        if self.active and not self._stopping:
            self.iters_since += 1
            if self.iters_since > self.MAX_IDLE_ITER:
                self.active = False
                self.verdict = 'livelock'
                raise Livelock()
            live = [h for h in self._scheduled if not h._cancelled]
            if not self._ready and not live:
                if not self.pending:
                    self.active = False
                    self.verdict = 'deadlock'
                    raise Deadlock()
                if self.prefer is not None:
                    # directed schedule (no solver choice): replies of the preferred simulator first
                    idx = next((i for i, p in enumerate(self.pending) if p[0] == self.prefer), 0)
                    if self.on_deliver is not None:
                        self.on_deliver(self.pending[idx][0])
                    self._deliver(idx)
                else:
                    self._deliver(self.eng.choose(len(self.pending), 'deliver'))
            elif self.D > 0 and self.pending and self._ready:
                i = self.eng.choose(len(self.pending) + 1, 'early')
                if i > 0:
                    self.D -= 1
                    self._deliver(i - 1)
        super()._run_once()

    def _deliver(self, i):
        sid, kind, fut = self.pending.pop(i)
        self.deliveries.append((sid, kind))
        self.iters_since = 0
        if not fut.done():
            fut.set_result(None)

    def park(self, sid, kind):
        fut = self.create_future()
        self.pending.append((sid, kind, fut))
        return fut

    def close(self):
        if self.leaked is None and not self.is_closed():
            try:
                self.leaked = [t.get_name() for t in asyncio.all_tasks(self) if not t.done()]
            except Exception:
                self.leaked = []
        super().close()


# ---------------------------------------------------------------------------
# the oracle proxy

class ObservedSend:
    """Observation points shared by the in-process and the in-memory remote proxy: requests and replies are logged and fed
    to the reference model at the proxy boundary; `_raw_send` is the real send() of the proxy class."""

    park_replies = True

    async def send(self, request):
        f, args, kw = request
        ctx = CTX
        ref = ctx.get('ref')
        loop = ctx.get('loop')
        sid = getattr(self, '_sid', None)
        if f == 'init':
            self._sid = sid = args[0]
        log = ctx['log']
        active = loop is not None and loop.active
        hook = ctx.get('hook')
        if hook is not None:
            hook('request', sid, f, args)
        if f == 'step' and active:
            inputs_copy = copy.deepcopy(args[1])
            log.append(('step', sid, args[0], args[2], inputs_copy))
            if ref is not None:
                ref.on_step_begin(sid, args[0], inputs_copy, args[2])
        elif f in ('setup_done', 'get_data') and active:
            log.append((f, sid))
        fault = ctx.get('fault')
        if fault is not None and active:
            fault(self, sid, f, 'before')
        r = await self._raw_send(request)
        if self.park_replies and active and f in ('step', 'get_data') and sid not in ctx['sync']:
            await loop.park(sid, f)
        if fault is not None and active:
            r = fault(self, sid, f, 'after', r)
        if active:
            if f == 'step':
                log.append(('step_done', sid, r))
                if ref is not None:
                    ref.on_step_end(sid, r)
            elif f == 'get_data':
                log.append(('data', sid, r))
                if ref is not None:
                    ref.on_get_data_end(sid, r)
        if hook is not None:
            hook('reply', sid, f, r)
        return r


class OracleProxy(ObservedSend, LocalProxy):
    async def _raw_send(self, request):
        return await LocalProxy.send(self, request)

    async def stop(self):
        CTX['log'].append(('stop', getattr(self, '_sid', None)))
        await LocalProxy.stop(self)


async def oracle_inproc(mosaik_config, sim_name, sim_config, mosaik_remote):
    base = await simmanager.start_inproc(mosaik_config, sim_name, sim_config, mosaik_remote)
    return OracleProxy(base.sim, mosaik_remote)


# ---------------------------------------------------------------------------
# symbolic simulator

BASE_META = {
    'api_version': '3.0',
    'type': 'event-based',
    'models': {'M': {'public': True, 'params': [], 'attrs': ['it', 'it2', 'im', 'im2', 'op', 'op2', 'oe']}},
}

IN_ATTR = {'time-based': ['im'], 'event-based': ['it'], 'hybrid': ['it', 'im']}
OUT_ATTR = {'time-based': ['op'], 'event-based': ['oe'], 'hybrid': ['op', 'oe']}


class SymSim(mosaik_api_v3.Simulator):
    """A simulator whose behaviour at its k-th step is symbolic (DESIGN.md 3.3)."""

    def __init__(self):
        super().__init__(copy.deepcopy(BASE_META))

    def init(self, sid, time_resolution, typ='event-based', any_inputs=False, hier=0):
        self.sid = sid
        self.typ = typ
        self.hier = hier
        self.meta['type'] = typ
        m = self.meta['models']['M']
        if hier:
            # hierarchical entities: create() returns a parent whose children are of two model types; model X knows the single
            # attribute 'zz' (which M does not have) and none of M's
            self.meta['models']['X'] = {'public': False, 'params': [], 'attrs': ['zz']}
        if any_inputs:
            m['any_inputs'] = True
        if typ == 'hybrid':
            m['trigger'] = ['it', 'it2']
            m['non-persistent'] = ['oe']
        self.n = 0
        self.t = None
        self.finalized = 0
        self._log = CTX['log']      # a simulator object outliving its run (remote side, garbage collection) keeps writing to its own log
        return self.meta

    def create(self, num, model):
        if getattr(self, 'hier', 0):
            kids = [{'eid': 'x', 'type': 'X'}, {'eid': 'e', 'type': 'M'}]
            return [{'eid': 'p', 'type': model, 'children': kids if self.hier == 1 else kids[::-1]}]
        return [{'eid': eid, 'type': model} for eid in ('e', 'f', 'g')[:num]]

    def step(self, time, inputs, max_advance):
        eng = CTX['eng']
        K = CTX['K']
        k = self.n
        self.n += 1
        self.t = time
        until = CTX['until']
        beh = CTX.get('behaviour')
        if beh is not None:
            r = beh(self, 'step', k, time, inputs, max_advance)
            if r is not NotImplemented:
                return r
        if k >= K:
            # beyond the behaviour bound the simulator goes quiet (no self-schedule before until, no event outputs):
            # a legal behaviour, so the rest of the run is still monitored instead of being cut
            if not CTX.get('quiet_after_K', True) or k >= K + CTX.get('quiet_steps', 8):
                raise PathCut(f'{self.sid} asked for more than {K} steps')
            if self.typ == 'time-based':
                return until if bool(time < until) else time + 1
            return None
        last = k == K - 1
        # a configuration parameter of the simulator: behind the cmd starter it comes from the process environment, else from the job
        env = getattr(self, 'proc_env', None)
        g = builtins.int(env.get('VK_GAIN', 0)) if env is not None else CTX.get('gain', {}).get(self.sid, 0)
        if self.typ == 'time-based':
            d = eng.int(f'{self.sid}.d{k}', 1)
            if last:
                eng.assume(time + d >= until)
            return time + d + g
        if last or self.sid in CTX.get('no_self', ()):
            return None
        if eng.flag(f'{self.sid}.self{k}'):
            return time + eng.int(f'{self.sid}.d{k}', 1) + g
        return None

    def get_data(self, outputs):
        eng = CTX['eng']
        k = self.n - 1
        beh = CTX.get('behaviour')
        if beh is not None:
            r = beh(self, 'get_data', k, self.t, outputs, None)
            if r is not NotImplemented:
                return r
        data = {}
        only_events = True
        any_event = False
        quiet = k >= CTX['K']
        for eid, attrs in outputs.items():
            for a in attrs:
                if a in ('op', 'op2') or self.typ == 'time-based':
                    data.setdefault(eid, {})[a] = self._tok(eid, k, a)
                    only_events = False
                elif quiet:
                    continue
                else:
                    if eng.flag(f'{self.sid}.out{k}.{a}' if eid == 'e' else f'{self.sid}.out{k}.{eid}.{a}'):
                        data.setdefault(eid, {})[a] = self._tok(eid, k, a)
                        if CTX.get('none_values') and eng.flag(f'{self.sid}.none{k}.{a}'):
                            data[eid][a] = None      # an event may carry any value, None included
                        any_event = True
        if (only_events or CTX.get('future_mixed')) and any_event and CTX.get('future_outputs', False):
            if eng.flag(f'{self.sid}.fut{k}'):
                e = eng.int(f'{self.sid}.e{k}', 1)
                if CTX.get('bounded_times'):
                    # output times become dict keys (cache) and are concretised: keep them finite
                    eng.assume(self.t + e <= CTX['until'] + 1)
                data['time'] = self.t + e
        return data

    def _tok(self, eid, k, a):
        # provenance token of an output value (the first entity keeps the short historical form)
        return f'{self.sid}#{k}.{a}' if eid == 'e' else f'{self.sid}.{eid}#{k}.{a}'

    def finalize(self):
        self.finalized += 1
        log = getattr(self, '_log', None)
        (log if log is not None else CTX['log']).append(('finalize', getattr(self, 'sid', None)))
        if CTX.get('fin_fault') is not None and CTX['fin_fault'] == getattr(self, 'sid', None):
            CTX['fin_fired'] = True
            raise RuntimeError('boom (finalize() of the simulator failed)')


# ---------------------------------------------------------------------------
# patches (environment stubs), all restored after each path

def sym_int(x=0, *a):
    if isinstance(x, E.SymInt):
        return x
    if isinstance(x, E.SymBool):
        raise E.Unsupported('int() of a symbolic bool')
    return builtins.int(x, *a)


@contextlib.contextmanager
def patched(salt=0, sym_int_names=True):
    class DetSimRunner(simmanager.SimRunner):
        def __hash__(self):
            return hash((salt, self.sid))

        def __eq__(self, o):
            return self is o

    from vk import modstate
    modstate.reset_all()     # module-level containers of mosaik as after import: a path never sees what an earlier path left there
    starters = simmanager.StarterCollection()
    saved = {
        'starter': starters['python'],
        'SimRunner': sc.SimRunner,
        'gp': scheduler.get_progress,
        'gap': scheduler.get_avg_progress,
    }
    starters['python'] = oracle_inproc
    sc.SimRunner = DetSimRunner
    scheduler.get_progress = lambda sims, until: 0
    scheduler.get_avg_progress = lambda sims, until: 0
    if sym_int_names:
        sc.int = sym_int
    try:
        yield
    finally:
        starters['python'] = saved['starter']
        sc.SimRunner = saved['SimRunner']
        scheduler.get_progress = saved['gp']
        scheduler.get_avg_progress = saved['gap']
        if sym_int_names and 'int' in sc.__dict__:
            del sc.int


STUBS = [
    "'python' starter of simmanager.StarterCollection returns OracleProxy(LocalProxy): replies of asynchronous simulators are parked and released in an order chosen by the solver",
    "event loop: asyncio.SelectorEventLoop subclass handed to World(asyncio_loop=...); asyncio itself (tasks, futures, gather/wait, timers) is executed for real and trusted",
    "name SimRunner in mosaik.scenario bound to a subclass that differs only in __hash__ (salted hash of the simulator id) so that set iteration in ensure_no_dataflow_cycles / cache_triggering_ancestors is reproducible; the salt is enumerated",
    "scheduler.get_progress / get_avg_progress (progress-bar arithmetic) return constants; tqdm disabled (print_progress=False); loguru sinks removed",
    "name int in mosaik.scenario bound to a symbolic-aware int() (returns a symbolic int unchanged, else the builtin)",
    "simulators are constrained by the documented API contract only: next step > current time, output time >= step time and only for replies that carry non-persistent outputs only, persistent outputs always present",
    "behaviour bound K: a simulator's first K steps have symbolic behaviour; from step K+1 on it goes quiet (no event outputs, no self-schedule before until; time-based simulators return until) - a legal behaviour, so the rest of the run is still monitored; paths needing more than K+8 steps, and with a symbolic until more than K steps, are cut and counted",
    "symbolic values that reach a hash / index / C-level int are concretised by the solver, one feasible value at a time (all values explored)",
    "module-level dicts / lists / sets of the mosaik modules are restored to their contents after import at the start of every path (vk.modstate): a path is a fresh process as far as module state goes",
]


# ---------------------------------------------------------------------------
# scenario construction from a topology description

def build(world, ref, topo, eng, cfg):
    """topo: {'tree': nested list of sids, 'types': {sid: type}, 'edges': [...], 'init': {sid: t}}"""
    ents = {}
    order = cfg.get('start_perm')

    counter = [0]

    def rec(tree, path):
        items = list(tree)
        if cfg.get('reverse_start'):
            items.reverse()
        for it in items:
            if isinstance(it, (list, tuple)):
                counter[0] += 1
                gid = f'g{counter[0]}'
                with world.group():
                    rec(it, path + [gid])
            else:
                typ = topo['types'][it]
                f = world.start(f'C_{it}' if it in cfg.get('remote_cmd', ()) else ('R' if it in cfg.get('remote', ()) else 'S'), sim_id=it, typ=typ)
                n_ent = 1 + max([0] + [('e', 'f', 'g').index(e.get(k, 'e')) for e in topo['edges'] for k, s_ in (('se', e['src']), ('de', e['dst'])) if s_ == it])
                made = f.M.create(n_ent)
                ents[it] = {x.eid: x for x in made}
                if ref is not None:
                    ref.add_sim(it, path, typ)
    rec(topo['tree'], ['R'])
    for sid, ts in (topo.get('init') or {}).items():
        for t in (ts if isinstance(ts, (list, tuple)) else [ts]):     # one or several initial events per simulator
            world.set_initial_event(sid, t)
            if ref is not None:
                ref.initial_event(sid, t)
    for i, e in enumerate(topo['edges']):
        src, dst = e['src'], e['dst']
        sa, da = e['sa'], e['da']
        kw = {}
        k = e.get('k', 0)
        if k == 'sym':
            k = eng.int(f'shift{i}', e.get('kmin', 1))
        if not (type(k) is int and k == 0):
            kw['time_shifted'] = k
        if e.get('weak'):
            kw['weak'] = True
        initial = SENT
        if e.get('initial'):
            initial = f'init{i}'
            kw['initial_data'] = {sa: initial}
        if e.get('async'):
            kw['async_requests'] = True
        se, de = e.get('se', 'e'), e.get('de', 'e')
        world.connect(ents[src][se], ents[dst][de], (sa, da), **kw)
        if ref is not None:
            st, dt = topo['types'][src], topo['types'][dst]
            persistent = sa in ('op', 'op2') or st == 'time-based'
            trigger = da.startswith('it') or dt == 'event-based'
            if dt == 'time-based':
                trigger = False
            needed = (not trigger) and ('time_shifted' in kw or bool(kw.get('weak')))
            lenient = ((not persistent and not trigger) and not cfg.get('strict_events', True)) or \
                      ((initial is not SENT and not needed) and not os.environ.get('VK_STRICT_INIT'))
            ref.add_conn(src, se, sa, dst, de, da, k=k, weak=e.get('weak', False), initial=initial,
                         persistent=persistent, trigger=trigger, lenient=lenient)
            if e.get('async'):
                ref.add_conn(src, se, None, dst, de, None, async_only=True)
    return ents


def classify_exception(e):
    import traceback
    tb = traceback.extract_tb(e.__traceback__)
    where = None
    for fr in reversed(tb):
        if fr.filename.startswith(_REPO + '/mosaik/'):
            where = f"{fr.filename[len(_REPO) + 1:]}:{fr.name}"
            break
    return {'exc_type': type(e).__name__, 'exc_msg': str(e)[:200], 'where': where}


CTX_EXTRA = {}     # additional CTX entries for the next run_world (harness-specific callbacks)


class Run:
    """result of one monitored run of the real World"""
    def __init__(self):
        self.outcome = None
        self.exc = None
        self.exc_info = {}
        self.ref = None
        self.loop = None
        self.log = None
        self.world = None
        self.until = None
        self.closed_by_run = None     # whether World.run() itself left the event loop closed


def run_world(eng, topo, cfg, behaviour=None, hook=None, fault=None, rules=None, var_prefix='', run_kwargs=None,
              world_kwargs=None):
    """Build the scenario of `topo` in a real World on an OracleLoop and run it.  Returns a Run.
    The caller states the obligations on the outcome."""
    rules = tuple(rules if rules is not None else cfg.get('rules', ('C01', 'C02', 'C03', 'C05', 'C07', 'C10')))
    until = cfg.get('until', 3)
    if until == 'sym':
        until = eng.int('until', cfg.get('until_min', 1))
    remote_sids = set(cfg.get('remote', ())) | set(cfg.get('remote_cmd', ()))
    if remote_sids:
        from vk import remote as R
        loop = R.MemLoop(eng, D=cfg.get('D', 0))
        remote_ctx = R.patched
    else:
        loop = OracleLoop(eng, D=cfg.get('D', 0))
        remote_ctx = contextlib.nullcontext
    log = []
    ref = None
    if not cfg.get('no_ref'):
        ref = Ref(eng, rules=rules, lazy=cfg.get('lazy', True))
        ref.prefix = cfg.get('rule_prefix', '')
    CTX.clear()
    CTX.update(eng=eng, loop=loop, K=cfg.get('K', 2), until=until, ref=ref, log=log,
               sync=set(cfg.get('sync', ())), future_outputs=cfg.get('future_outputs', False),
               no_self=set(cfg.get('no_self', ())), behaviour=behaviour, hook=hook, fault=fault,
               quiet_after_K=cfg.get('quiet_after_K', True),
               bounded_times=bool(cfg.get('cache', True) or cfg.get('debug', False)), gain=dict(cfg.get('gain', {})), linger=set(cfg.get('linger', ())), none_values=cfg.get('none_values', False), future_mixed=cfg.get('future_mixed', False))
    CTX.update(CTX_EXTRA)
    r = Run()
    r.ref, r.loop, r.log, r.until = ref, loop, log, until
    with patched(salt=cfg.get('salt', 0)), remote_ctx():
        wk = dict(skip_greetings=True, asyncio_loop=loop, cache=cfg.get('cache', True), debug=cfg.get('debug', False),
                  max_loop_iterations=cfg.get('max_loop_iterations', 100))
        if world_kwargs:
            wk.update(world_kwargs)
        sim_config = {'S': {'python': 'vk.sysrun:SymSim'}, 'R': {'connect': 'mem:1'}}
        for sid in cfg.get('remote_cmd', ()):
            # started by the cmd starter, each from its own entry; a simulator named in cfg['gain'] gets its gain through its environment
            sim_config[f'C_{sid}'] = {'cmd': 'mem-sim 1 %(addr)s'}
            if sid in cfg.get('gain', {}):
                sim_config[f'C_{sid}']['env'] = {'VK_GAIN': str(cfg['gain'][sid])}
        w = mosaik.World(sim_config, **wk)
        r.world = w
        try:
            build(w, ref, topo, eng, cfg)
            if ref is not None:
                ref.start(until)
            if CTX.get('before_run') is not None:
                CTX['before_run'](w, loop)
            loop.active = True
            try:
                rk = dict(print_progress=False, lazy_stepping=cfg.get('lazy', True))
                if run_kwargs:
                    rk.update(run_kwargs)
                w.run(until=until, **rk)
                r.outcome = 'done'
            except Deadlock:
                r.outcome = 'deadlock'
            except Livelock:
                r.outcome = 'livelock'
            except (E.Unsupported, E.HarnessError, E.ReplayDiverged):
                raise
            except Exception as e:  # noqa: the verdict is the exception
                r.exc = e
                r.exc_info = classify_exception(e)
                r.outcome = 'exc:' + type(e).__name__
            finally:
                loop.active = False
                r.closed_by_run = loop.is_closed()
        finally:
            if not loop.is_closed():
                try:
                    loop.close()
                except Exception:
                    pass
    return r


def system(topo, cfg):
    """Generic system harness.  cfg keys: until (int | 'sym'), K, cache, lazy, D, sync (list of
    sids answering synchronously), salt, rules (list of property ids monitored), debug."""
    rules = tuple(cfg.get('rules', ('C01', 'C02', 'C03', 'C05', 'C07', 'C10')))

    def h(eng):
        r = run_world(eng, topo, cfg, rules=rules)
        ref, loop = r.ref, r.loop
        pre = ref.prefix
        if r.outcome == 'done':
            ref.on_end()
        elif 'C05' in rules:
            x = r.exc_info
            eng.alarm(pre + 'C05.' + r.outcome.split(':')[0],
                      f"run() did not complete: {r.outcome} {x.get('exc_msg', '')} at {x.get('where')}; pending={[(p[0], p[1]) for p in loop.pending]}",
                      {'exc': x, 'fp': ['C05', r.outcome, x.get('where'), x.get('exc_msg', '')[:40]]})
        info = {'nontrivial': ref.nsteps > 0, 'steps': ref.nsteps, 'counts': dict(ref.counts), 'trace': ref.trace[:60],
                'deliveries': loop.deliveries[:60]}
        if r.exc_info:
            info['exc'] = r.exc_info
        return (r.outcome, info)
    return h

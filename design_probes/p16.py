import inspect, textwrap, functools, sys
import mosaik.tiered_time as tt
src = textwrap.dedent(inspect.getsource(tt.TieredInterval.__lt__))
assert 'if o > s:' in src
ns = {}
exec(src.replace('if o > s:', 'if s > o:'), tt.__dict__, ns)
tt.TieredInterval.__lt__ = ns['__lt__']
# re-derive total_ordering methods from the patched __lt__
for op in ('__le__', '__gt__', '__ge__'):
    if op in tt.TieredInterval.__dict__: delattr(tt.TieredInterval, op)
functools.total_ordering(tt.TieredInterval)
sys.argv = ['p15.py', sys.argv[1]]
exec(open('p15.py').read())

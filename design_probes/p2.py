import mosaik, simmod
from loguru import logger
logger.remove()
def run(n0: int, n1: int) -> bool:
    """
    pre: 0 < n0 < 4 and n0 < n1 < 4
    post: _
    """
    w = mosaik.World({'S': {'python': 'simmod:S'}}, skip_greetings=True)
    a = w.start('S', sim_id='A', typ='hybrid', script={'next': {0: n0, 1: n1}})
    b = w.start('S', sim_id='B')
    ea = a.M(); eb = b.M()
    w.connect(ea, eb, ('x_out', 'x_in'))
    w.run(until=4, print_progress=False)
    la = w.sims['A']._proxy.sim.log; lb = w.sims['B']._proxy.sim.log
    return la == lb and len(la) != 3

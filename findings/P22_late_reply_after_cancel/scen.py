"""Two unconnected remote simulators: A's handler raises in its step at time 1 (0.30 s per step), B's steps take 0.35 s, so B's
reply to the step that is outstanding when A fails arrives after mosaik has cancelled B's runner.  Expected: run() ends (logged
remote error), B is finalized."""
import os, time, mosaik
if os.path.exists('B.fin'): os.remove('B.fin')
w = mosaik.World({'S': {'cmd': '%(python)s sims.py %(addr)s'}}, skip_greetings=True)
w.start('S', sim_id='A', slow=0.30, fail_at=1).M()
w.start('S', sim_id='B', slow=0.35, marker='B.fin').M()
t0 = time.time()
try:
    w.run(until=5, print_progress=False)
    print('run returned after', round(time.time() - t0, 2), 's')
except BaseException as e:
    print('run raised', type(e).__name__, str(e)[:100], 'after', round(time.time() - t0, 2), 's')
time.sleep(0.3)
print('B finalized:', os.path.exists('B.fin'), 'loop closed:', w.loop.is_closed())

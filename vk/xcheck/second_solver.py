"""Second solver: re-decide exported queries of the own executor with the cvc5 binary.

Every query the executor asked z3 (branch feasibility, obligations `pc and not post`, concretisation) can be kept as
SMT-LIB2 text together with z3's verdict (vk.engine.Engine._export).  All queries of one job go into ONE file, each in
its own (push 1) ... (pop 1) scope (declarations included, so scopes are independent), and one `cvc5 --incremental`
process answers them.  An `(error` line, a missing answer or `unknown` is inconclusive (reported, never counted as
agreement); a definite answer different from z3's is a disagreement (harness error, exit 2)."""
from __future__ import annotations

import os
import shutil
import subprocess
import tempfile
import time

CVC5 = shutil.which('cvc5') or '/usr/bin/cvc5'


def _body(text):
    return '\n'.join(l for l in text.splitlines() if l and not l.startswith(';') and not l.startswith('(set-info'))


def crosscheck(export, tlimit_ms=10000):
    res = {'queries': len(export), 'agree_sat': 0, 'agree_unsat': 0, 'disagree': [], 'inconclusive': 0, 'errors': [], 'cvc5_s': 0.0}
    if not export:
        return res
    if not os.path.exists(CVC5):
        res['errors'].append('cvc5 binary not found')
        res['inconclusive'] = len(export)
        return res
    fd, path = tempfile.mkstemp(suffix='.smt2', prefix='vkx')
    try:
        with os.fdopen(fd, 'w') as f:
            f.write('(set-logic ALL)\n')
            for i, (text, verdict) in enumerate(export):
                f.write(f'(push 1)\n{_body(text)}\n(echo "#{i}")\n(pop 1)\n')
        t0 = time.perf_counter()
        try:
            p = subprocess.run([CVC5, '--incremental', f'--tlimit-per={tlimit_ms}', path], capture_output=True, text=True,
                               timeout=max(120, len(export) * tlimit_ms / 1000 / 4))
            out = p.stdout
            if p.stderr.strip():
                res['errors'].append(p.stderr.strip()[:300])
        except subprocess.TimeoutExpired as e:
            out = (e.stdout or b'').decode() if isinstance(e.stdout, bytes) else (e.stdout or '')
            res['errors'].append('cvc5 process timed out')
        res['cvc5_s'] = round(time.perf_counter() - t0, 3)
    finally:
        try:
            os.remove(path)
        except OSError:
            pass
    answers = {}
    cur = []
    for ln in out.splitlines():
        ln = ln.strip().strip('"')
        if ln.startswith('#') and ln[1:].isdigit():
            answers[int(ln[1:])] = cur
            cur = []
        elif ln:
            cur.append(ln)
    for i, (text, verdict) in enumerate(export):
        a = answers.get(i)
        if not a or len(a) != 1 or a[0] not in ('sat', 'unsat'):
            res['inconclusive'] += 1
            if a and any('error' in x for x in a) and len(res['errors']) < 5:
                res['errors'].append(f'query {i}: {" ".join(a)[:200]}')
            continue
        if a[0] == verdict:
            res['agree_' + verdict] += 1
        elif len(res['disagree']) < 5:
            res['disagree'].append({'query': i, 'z3': verdict, 'cvc5': a[0], 'smt2': text[:4000]})
        else:
            res['disagree'].append({'query': i, 'z3': verdict, 'cvc5': a[0]})
    return res


def merge(total, r):
    for k in ('queries', 'agree_sat', 'agree_unsat', 'inconclusive'):
        total[k] = total.get(k, 0) + r[k]
    total['cvc5_s'] = round(total.get('cvc5_s', 0.0) + r['cvc5_s'], 2)
    total.setdefault('disagree', []).extend(r['disagree'][: max(0, 5 - len(total.get('disagree', [])))])
    total.setdefault('errors', []).extend(r['errors'][: max(0, 5 - len(total.get('errors', [])))])
    total['n_disagree'] = total.get('n_disagree', 0) + len(r['disagree'])
    return total

"""C06 kernel: cycle detection is exact.  Entirely through the public API
(World.start / group / connect / run); shift amounts are unbounded symbolic ints
(k = 0 is the plain connection), the edge structure and the group placement are
enumerated."""
from __future__ import annotations

import copy
import itertools
import re

import z3
import mosaik
import mosaik_api_v3
from mosaik.exceptions import ScenarioError

from vk import sysrun
from vk.engine import term

META = {'api_version': '3.0', 'type': 'hybrid',
        'models': {'M': {'public': True, 'params': [], 'attrs': ['it', 'oe'], 'trigger': ['it'], 'non-persistent': ['oe']}}}


class TrivSim(mosaik_api_v3.Simulator):
    def __init__(self):
        super().__init__(copy.deepcopy(META))

    def init(self, sid, time_resolution):
        return self.meta

    def create(self, num, model):
        return [{'eid': 'e', 'type': model}]

    def step(self, time, inputs, max_advance):
        return None

    def get_data(self, outputs):
        return {}


def paths_of(tree):
    out = {}
    counter = [0]

    def rec(t, path):
        for it in t:
            if isinstance(it, (list, tuple)):
                counter[0] += 1
                rec(it, path + [f'g{counter[0]}'])
            else:
                out[it] = path
    rec(tree, ['R'])
    return out


def common(p, q):
    n = 0
    while n < min(len(p), len(q)) and p[n] == q[n]:
        n += 1
    return p[:n]


def weak_allowed(paths, u, v):
    return len(common(paths[u], paths[v])) >= 2


def simple_cycles(nodes):
    res = []
    for r in range(1, len(nodes) + 1):
        for sub in itertools.combinations(nodes, r):
            first, rest = sub[0], sub[1:]
            for perm in itertools.permutations(rest):
                res.append([first] + list(perm) + [first])
    return res


def structures(tree, self_pairs, kinds=(0, 1, 2, 3), weak_shift=False):
    """all edge assignments {(u, v): kind} for the placement (kind 0 none, 1 shifted-by-k edge, 2 weak, 3 both,
    4 an async_requests connection without attribute pairs: a zero-delay dependency that nothing resolves)"""
    paths = paths_of(tree)
    nodes = sorted(paths)
    pairs = [(u, v) for u in nodes for v in nodes if self_pairs or u != v]
    doms = []
    for (u, v) in pairs:
        ks = [k for k in kinds if k in (0, 1) or (k == 4 and u != v) or (k in (2, 3) and weak_allowed(paths, u, v))]
        doms.append(ks)
    out = []
    for combo in itertools.product(*doms):
        st = {f'{u}>{v}': k for (u, v), k in zip(pairs, combo) if k}
        if st:
            out.append(st)
    return out


def cycles(tree, structs, salt=0, weak_shift=False):
    paths = paths_of(tree)
    nodes = sorted(paths)
    cycs = simple_cycles(nodes)

    def h(eng):
        si = eng.choose(len(structs), 'structure')
        st = structs[si]
        loop = sysrun.OracleLoop(eng)
        log = []
        sysrun.CTX.clear()
        sysrun.CTX.update(eng=eng, loop=loop, K=5, until=1, ref=None, log=log, sync=set(nodes))
        ks = {}
        outcome = None
        msg = ''
        with sysrun.patched(salt=salt):
            w = mosaik.World({'S': {'python': 'vk.kernels.c06:TrivSim'}}, skip_greetings=True, asyncio_loop=loop, cache=False)
            try:
                ents = {}

                def rec(t):
                    for it in t:
                        if isinstance(it, (list, tuple)):
                            with w.group():
                                rec(it)
                        else:
                            ents[it] = w.start('S', sim_id=it).M()
                rec(tree)
                try:
                    for key in sorted(st):
                        u, v = key.split('>')
                        kind = st[key]
                        if kind in (1, 3):
                            k = eng.int(f'k.{u}{v}', 0)
                            ks[key] = k
                            w.connect(ents[u], ents[v], ('oe', 'it'), time_shifted=k)
                        if kind == 4:
                            import warnings
                            with warnings.catch_warnings():
                                warnings.simplefilter('ignore')
                                w.connect(ents[u], ents[v], async_requests=True)
                        if kind in (2, 3):
                            if weak_shift:
                                kw = eng.int(f'kw.{u}{v}', 0)
                                ks['w' + key] = kw
                                w.connect(ents[u], ents[v], ('oe', 'it'), weak=True, time_shifted=kw)
                            else:
                                w.connect(ents[u], ents[v], ('oe', 'it'), weak=True)
                except (AssertionError, ScenarioError, TypeError, KeyError) as e:
                    eng.alarm('C06.crash', f'connect() failed with {type(e).__name__} {str(e)[:100]}: tree={tree} edges={st}',
                              {'fp': [str(tree), st, 'connect'], 'outcome': 'connect:' + type(e).__name__, 'incomparable': 'incomparable' in str(e)})
                    return ('connect-failed', {'nontrivial': True})

                def hop_unresolved(u, v, cyc):
                    kind = st.get(f'{u}>{v}', 0)
                    alts = []
                    if kind == 4:
                        return z3.BoolVal(True)      # asynchronous requests: v waits for u's step of the same time, nothing resolves that
                    if kind in (1, 3):
                        alts.append(term(ks[f'{u}>{v}'] == 0))
                    if kind in (2, 3):
                        cg = common(paths[u], paths[v])
                        inside = all(paths[x][:len(cg)] == cg for x in cyc)
                        zero = term(ks['w' + f'{u}>{v}'] == 0) if weak_shift else z3.BoolVal(True)
                        if not inside:
                            alts.append(zero)
                    return z3.Or(*alts) if alts else z3.BoolVal(False)

                def cyc_unresolved(cyc):
                    return z3.And(*[hop_unresolved(cyc[i], cyc[i + 1], cyc) for i in range(len(cyc) - 1)])
                expect = z3.simplify(z3.Or(*[cyc_unresolved(c) for c in cycs]))
                loop.active = True
                fp = [str(tree), st]
                try:
                    w.run(until=1, print_progress=False)
                    outcome = 'accepted'
                except ScenarioError as e:
                    outcome = 'rejected'
                    msg = str(e)
                except sysrun.Deadlock:
                    outcome = 'deadlock'
                except AssertionError as e:
                    outcome = 'assert'
                    msg = str(e)
                finally:
                    loop.active = False
                stepped = any(x[0] == 'step' for x in log)
                desc = f'tree={tree} edges={st}'
                if outcome == 'rejected':
                    eng.check(expect, 'C06.spurious', f'rejected although every cycle is resolved: {desc}: {msg[:120]}', {'fp': fp})
                    eng.check(not stepped, 'C06.late', f'ScenarioError after a simulator was stepped: {desc}', {'fp': fp})
                    named = re.findall(r"sid='([^']+)'", msg)
                    ok_shape = len(named) >= 2 and named[0] == named[-1] and all(
                        st.get(f'{named[i]}>{named[i + 1]}', 0) for i in range(len(named) - 1))
                    eng.check(ok_shape, 'C06.named', f'the cycle named in the error {named} is not a closed path of connections: {desc}', {'fp': fp})
                    if ok_shape and len(set(named[:-1])) == len(named) - 1:
                        eng.check(cyc_unresolved(named), 'C06.named', f'the cycle named in the error {named} is resolved: {desc}', {'fp': fp})
                elif outcome == 'accepted':
                    eng.check(z3.Not(expect), 'C06.missed', f'accepted although an unresolved cycle exists: {desc}', {'fp': fp})
                else:
                    eng.alarm('C06.crash', f'run() failed with {outcome} {msg[:100]}: {desc}',
                              {'fp': fp, 'outcome': outcome, 'incomparable': 'incomparable' in msg})
            finally:
                if not loop.is_closed():
                    loop.close()
        return (outcome, {'nontrivial': True, 'structure': st})
    return h


TREES2 = [['A', 'B'], [['A', 'B']], [['A'], 'B'], [['A'], ['B']], [['A', ['B']]]]
TREES3 = [['A', 'B', 'C'], [['A', 'B'], 'C'], [['A', 'B', 'C']], [['A', 'B'], ['C']], [['A', ['B']], 'C'], [['A', ['B', 'C']]],
          [['A', ['B']], ['C']], [[['A', 'B'], 'C']], [['A'], ['B'], 'C']]


def chunks(lst, n):
    for i in range(0, len(lst), n):
        yield lst[i:i + n]


def jobs(tier, seed=0):
    out = []
    q = tier == 'quick'
    for ti, tree in enumerate(TREES2):
        sts = structures(tree, self_pairs=True, kinds=(0, 1, 2) if q else (0, 1, 2, 3))
        for ci, ch in enumerate(chunks(sts, 8)):
            out.append({'id': f'n2|t{ti}|c{ci}', 'harness': 'vk.kernels.c06:cycles', 'params': {'tree': tree, 'structs': ch}, 'budget_s': 300})
    # asynchronous-requests connections as edges of the dependency graph (two simulators: all structures; three: a rotating slice)
    for ti, tree in enumerate(TREES2):
        sts = [x for x in structures(tree, self_pairs=False, kinds=(0, 1, 2, 4)) if 4 in x.values()]
        for ci, ch in enumerate(chunks(sts, 8)):
            out.append({'id': f'a2|t{ti}|c{ci}', 'harness': 'vk.kernels.c06:cycles', 'params': {'tree': tree, 'structs': ch}, 'budget_s': 300})
    for ti, tree in enumerate(TREES3):
        sts = [x for x in structures(tree, self_pairs=False, kinds=(0, 1, 4)) if 4 in x.values()]
        sel = [x for i, x in enumerate(sts) if (i + seed + ti) % (24 if q else 3) == 0]
        for ci, ch in enumerate(chunks(sel, 3)):
            out.append({'id': f'a3|t{ti}|c{ci}', 'harness': 'vk.kernels.c06:cycles', 'params': {'tree': tree, 'structs': ch}, 'budget_s': 300})
    # three simulators, no self-pairs
    for ti, tree in enumerate(TREES3):
        sts = structures(tree, self_pairs=False, kinds=(0, 1, 2))
        # rotating slice (quick 1/16, thorough 1/2), each selected structure explored completely
        sts = [s for i, s in enumerate(sts) if (i + seed) % (16 if q else 2) == 0]
        for ci, ch in enumerate(chunks(sts, 6 if q else 24)):
            out.append({'id': f'n3|t{ti}|c{ci}', 'harness': 'vk.kernels.c06:cycles', 'params': {'tree': tree, 'structs': ch}, 'budget_s': 600})
    # three simulators: a weak connection inside a group and a cycle through it that passes the third simulator (which may or may
    # not be in that group): the configuration in which group identity matters.  Always complete, also in the quick tier.
    for ti, tree in enumerate(TREES3):
        paths = paths_of(tree)
        nodes = sorted(paths)
        sts = []
        for u in nodes:
            for v in nodes:
                if u == v or not weak_allowed(paths, u, v):
                    continue
                w3 = [x for x in nodes if x not in (u, v)][0]
                sts.append({f'{u}>{v}': 2, f'{v}>{w3}': 1, f'{w3}>{u}': 1})
                sts.append({f'{u}>{v}': 2, f'{v}>{w3}': 1, f'{w3}>{u}': 1, f'{v}>{u}': 1})
        if sts:
            out.append({'id': f'n3weak|t{ti}', 'harness': 'vk.kernels.c06:cycles', 'params': {'tree': tree, 'structs': sts}, 'budget_s': 300})
    # four simulators: two routes between one pair (one of them may leave the group), optional back edge
    tree4d = [[['A', 'D', 'C'], 'B'], [['A', 'C'], 'B', 'D'], [['A', 'B', 'C', 'D']], ['A', 'B', 'C', 'D'], [['A', 'C'], ['B', 'D']],
              [['A', ['D', 'C']], 'B']]
    for ti, tree in enumerate(tree4d):
        paths = paths_of(tree)
        sts = []
        for k_ac in (1, 2):
            for k_dc in (1, 2):
                for back in ((0,) if q else (0, 1)):
                    if (k_ac == 2 and not weak_allowed(paths, 'A', 'C')) or (k_dc == 2 and not weak_allowed(paths, 'D', 'C')):
                        continue
                    st = {'A>C': k_ac, 'A>B': 1, 'B>D': 1, 'D>C': k_dc}
                    if back:
                        st['C>A'] = 1
                    sts.append(st)
        if sts:
            out.append({'id': f'n4d|t{ti}', 'harness': 'vk.kernels.c06:cycles', 'params': {'tree': tree, 'structs': sts}, 'budget_s': 600})
    if not q:
        for ti, tree in enumerate(TREES2):
            sts = structures(tree, self_pairs=True, kinds=(0, 1, 2))
            for salt in (1, 2):
                for ci, ch in enumerate(chunks(sts, 16)):
                    out.append({'id': f'n2|t{ti}|c{ci}|salt{salt}', 'harness': 'vk.kernels.c06:cycles',
                                'params': {'tree': tree, 'structs': ch, 'salt': salt}, 'budget_s': 300})
            sts = structures(tree, self_pairs=False, kinds=(0, 1, 2, 3))
            for ci, ch in enumerate(chunks(sts, 16)):
                out.append({'id': f'n2ws|t{ti}|c{ci}', 'harness': 'vk.kernels.c06:cycles',
                            'params': {'tree': tree, 'structs': ch, 'weak_shift': True}, 'budget_s': 300})
        # 4-simulator rings with chords
        tree4s = [['A', 'B', 'C', 'D'], [['A', 'B'], 'C', 'D'], [['A', 'B'], ['C', 'D']], [['A', 'B', 'C'], 'D'], [['A', 'D', 'C'], 'B']]
        for ti, tree in enumerate(tree4s):
            paths = paths_of(tree)
            ring = [('A', 'B'), ('B', 'C'), ('C', 'D'), ('D', 'A')]
            chords = [('A', 'C'), ('C', 'A'), ('B', 'D'), ('D', 'B'), ('B', 'A'), ('D', 'C')]
            sts = []
            for rk in itertools.product((1, 2), repeat=4):
                if any(k == 2 and not weak_allowed(paths, u, v) for (u, v), k in zip(ring, rk)):
                    continue
                for ck in itertools.product((0, 1), repeat=len(chords)):
                    if sum(ck) > 1:
                        continue
                    st = {f'{u}>{v}': k for (u, v), k in zip(ring, rk)}
                    st.update({f'{u}>{v}': 1 for (u, v), k in zip(chords, ck) if k})
                    sts.append(st)
            for ci, ch in enumerate(chunks(sts, 6)):
                out.append({'id': f'n4|t{ti}|c{ci}', 'harness': 'vk.kernels.c06:cycles', 'params': {'tree': tree, 'structs': ch}, 'budget_s': 600})
    return out

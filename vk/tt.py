"""Tiered-time helpers that work on tuples of plain ints and/or symbolic ints and build
terms instead of forking (b_* return bool or SymBool)."""
from vk.engine import SymBool


def b_and(*xs):
    r = True
    for x in xs:
        if x is False:
            return False
        if x is True:
            continue
        r = x if r is True else (r & x)
    return r


def b_or(*xs):
    r = False
    for x in xs:
        if x is True:
            return True
        if x is False:
            continue
        r = x if r is False else (r | x)
    return r


def b_not(x):
    if x is True:
        return False
    if x is False:
        return True
    return ~x


def b_implies(a, b):
    return b_or(b_not(a), b)


def _b(x):
    # normalise the result of a comparison of ints / SymInts
    if isinstance(x, SymBool):
        return x
    return bool(x)


def t_eq(a, b):
    assert len(a) == len(b), (a, b)
    return b_and(*[_b(x == y) for x, y in zip(a, b)])


def lex_lt(a, b):
    assert len(a) == len(b), (a, b)
    r = False
    for x, y in reversed(list(zip(a, b))):
        r = b_or(_b(x < y), b_and(_b(x == y), r))
    return r


def lex_le(a, b):
    assert len(a) == len(b), (a, b)
    r = True
    for x, y in reversed(list(zip(a, b))):
        r = b_or(_b(x < y), b_and(_b(x == y), r))
    return r


def fmt(tau):
    return ':'.join(str(x) for x in tau)

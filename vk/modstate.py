"""Process state of the modules under analysis.

Symbolic execution by re-execution runs many paths in one worker process; a path must not see what an earlier path left in
module-level containers of mosaik (caches, registries).  `reset(mod)` restores every module-level dict / list / set of a
module to its contents right after import (snapshotted at the first call): every path starts from a fresh process as far as
module state goes, while state built up WITHIN a path (several World.start() calls, several worlds) is kept and is part of
what the path explores."""
from __future__ import annotations

import copy
import importlib

_SNAP = {}

MODULES = ('mosaik.scenario', 'mosaik.scheduler', 'mosaik.simmanager', 'mosaik.adapters', 'mosaik.proxies', 'mosaik.util',
           'mosaik.tiered_time', 'mosaik.in_or_out_set', 'mosaik.progress')


def reset(modname):
    mod = importlib.import_module(modname)
    snap = _SNAP.get(modname)
    if snap is None:
        snap = _SNAP[modname] = {}
        for k, v in vars(mod).items():
            if k.startswith('__'):
                continue
            if type(v) in (dict, list, set):
                try:
                    snap[k] = (v, copy.copy(v))
                except Exception:  # noqa
                    pass
        return
    for k, (obj, orig) in snap.items():
        if type(obj) is dict:
            if obj != orig or len(obj) != len(orig):
                obj.clear()
                obj.update(orig)
        elif type(obj) is list:
            if obj != orig:
                obj[:] = orig
        elif type(obj) is set:
            if obj != orig:
                obj.clear()
                obj.update(orig)


def reset_all():
    for m in MODULES:
        reset(m)

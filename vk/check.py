"""CLI: python -m vk.check <property id> <quick|thorough>"""
from __future__ import annotations

import importlib
import os
import sys
import time
import traceback

from vk import common


def main(argv):
    if len(argv) < 2:
        print('usage: python -m vk.check <Cxx> <quick|thorough>')
        return common.EXIT_HARNESS
    prop, tier = argv[0], argv[1]
    if tier not in ('quick', 'thorough'):
        print('tier must be quick or thorough')
        return common.EXIT_HARNESS
    seed = int(os.environ.get('VERIF_SEED', '0') or 0)
    import warnings
    warnings.simplefilter('ignore')
    try:
        from loguru import logger
        logger.remove()
    except Exception:
        pass
    rep = common.Report(prop, tier, seed)
    try:
        mod = importlib.import_module(f'vk.props.{prop.lower()}')
        mod.run(rep, tier, seed, argv[2:])
    except BaseException as e:  # noqa
        rep.harness_error(f'{type(e).__name__}: {e}\n{traceback.format_exc()[-3000:]}')
    return rep.finish()


if __name__ == '__main__':
    sys.exit(main(sys.argv[1:]))

"""Symbolic executor for plain Python code, backed by z3.

Values are proxy objects (SymInt / SymBool / SymReal) holding a z3 term.  Python
control flow over them is decided by the solver: at every branch the solver is
asked which sides are feasible under the path condition; all feasible sides are
explored depth-first by re-executing the harness with a decision prefix.

Two engines share one interface so that a harness can be replayed without z3
semantics in the loop:

  Engine          symbolic (z3), explores all paths
  ConcreteEngine  scripted: every named variable has a plain Python value and
                  every explicit choice is read from a list

See DESIGN.md section 3.1.
"""
from __future__ import annotations

import time as _time
import z3


class PathCut(BaseException):
    """A stated bound was hit; the path is outside the claim."""

    def __init__(self, why=''):
        super().__init__(why)
        self.why = why


class PathDead(BaseException):
    """The path condition became unsatisfiable after assuming a checked
    obligation (everything on this path violated it); nothing left to explore."""


class SplitPoint(BaseException):
    pass


class Unsupported(Exception):
    """An operation on a symbolic value that the executor does not model."""


class HarnessError(Exception):
    """Non-determinism or another defect of the harness (never a verdict)."""


class ReplayDiverged(Exception):
    pass


class ReplayDone(BaseException):
    """concrete replay reached the violation it was looking for"""


ENGINE = None  # the engine of the path that is being executed


def current():
    return ENGINE


def _set_engine(e):
    global ENGINE
    ENGINE = e


# ---------------------------------------------------------------------------
# symbolic values

def _ie(x):
    """z3 arithmetic term for a Python/sym value, or None."""
    if isinstance(x, _Num):
        return x.e
    t = type(x)
    if t is bool:
        return z3.IntVal(int(x))
    if t is int:
        return z3.IntVal(x)
    if t is float:
        if x != x or x in (float('inf'), float('-inf')):
            return None
        return z3.RealVal(repr(x))
    if isinstance(x, SymBool):
        return z3.If(x.e, z3.IntVal(1), z3.IntVal(0))
    from fractions import Fraction
    if t is Fraction:
        return z3.RealVal(str(x))
    return None


class SymBool:
    __slots__ = ('e',)

    def __init__(self, e):
        self.e = e

    def __bool__(self):
        return ENGINE.branch(self.e)

    def __repr__(self):
        return f"<SymBool {self.e}>"

    def __and__(self, o):
        if isinstance(o, SymBool):
            return SymBool(z3.And(self.e, o.e))
        if type(o) is bool:
            return self if o else False
        return NotImplemented

    __rand__ = __and__

    def __or__(self, o):
        if isinstance(o, SymBool):
            return SymBool(z3.Or(self.e, o.e))
        if type(o) is bool:
            return True if o else self
        return NotImplemented

    __ror__ = __or__

    def __invert__(self):
        return SymBool(z3.Not(self.e))

    def __eq__(self, o):
        if isinstance(o, SymBool):
            return SymBool(self.e == o.e)
        if type(o) is bool:
            return self if o else SymBool(z3.Not(self.e))
        return NotImplemented

    def __hash__(self):
        return hash(bool(self))

    def __copy__(self):
        return self

    def __deepcopy__(self, memo):
        return self


def _cmp(op):
    def f(self, o):
        oe = _ie(o)
        if oe is None:
            if type(o) is float:  # +-inf / nan
                return _cmp_inf(op, o)
            return NotImplemented
        return SymBool(op(self.e, oe))
    return f


def _cmp_inf(op, o):
    # comparison of a finite symbolic number with +-inf
    import operator
    return {'lt': 0.0 < o, 'le': 0.0 <= o, 'gt': 0.0 > o, 'ge': 0.0 >= o,
            'eq': False, 'ne': True}[op.__name__]


def _lt(a, b): return a < b
def _le(a, b): return a <= b
def _gt(a, b): return a > b
def _ge(a, b): return a >= b
def _eq(a, b): return a == b
def _ne(a, b): return a != b


_lt.__name__, _le.__name__, _gt.__name__, _ge.__name__, _eq.__name__, _ne.__name__ = \
    'lt', 'le', 'gt', 'ge', 'eq', 'ne'


def _wrap(r):
    r = z3.simplify(r)
    return SymReal(r) if r.sort() == z3.RealSort() else SymInt(r)


def _ar(op, swap=False, real=False):
    def f(self, o):
        oe = _ie(o)
        if oe is None:
            return NotImplemented
        a, b = (oe, self.e) if swap else (self.e, oe)
        if real:
            a = z3.ToReal(a) if a.sort() == z3.IntSort() else a
            b = z3.ToReal(b) if b.sort() == z3.IntSort() else b
        return _wrap(op(a, b))
    return f


def _mul(a, b):
    # keep arithmetic linear: one side must be a numeral
    if not (z3.is_int_value(a) or z3.is_rational_value(a) or z3.is_int_value(b) or z3.is_rational_value(b)):
        sa, sb = z3.simplify(a), z3.simplify(b)
        if not (z3.is_int_value(sa) or z3.is_rational_value(sa) or z3.is_int_value(sb) or z3.is_rational_value(sb)):
            raise Unsupported('non-linear multiplication of symbolic values')
    return a * b


def _div(a, b):
    sb = z3.simplify(b)
    if not (z3.is_int_value(sb) or z3.is_rational_value(sb)):
        raise Unsupported('division by a symbolic value')
    return a / b


class _Num:
    __slots__ = ('e',)

    def __init__(self, e):
        self.e = e

    __lt__ = _cmp(_lt)
    __le__ = _cmp(_le)
    __gt__ = _cmp(_gt)
    __ge__ = _cmp(_ge)
    __eq__ = _cmp(_eq)
    __ne__ = _cmp(_ne)
    __add__ = _ar(lambda a, b: a + b)
    __radd__ = _ar(lambda a, b: a + b, True)
    __sub__ = _ar(lambda a, b: a - b)
    __rsub__ = _ar(lambda a, b: a - b, True)
    __mul__ = _ar(_mul)
    __rmul__ = _ar(_mul, True)
    __truediv__ = _ar(_div, real=True)
    __rtruediv__ = _ar(_div, True, real=True)

    def __neg__(self):
        return type(self)(z3.simplify(-self.e))

    def __pos__(self):
        return self

    def __abs__(self):
        return type(self)(z3.simplify(z3.If(self.e >= 0, self.e, -self.e)))

    def __bool__(self):
        return ENGINE.branch(self.e != 0)

    def __repr__(self):
        return f"<{z3.simplify(self.e)}>"

    __str__ = __repr__

    def __format__(self, spec):
        return repr(self)

    def __copy__(self):
        return self

    def __deepcopy__(self, memo):
        return self

    def __getattr__(self, name):
        raise Unsupported(f'{type(self).__name__}.{name}')


class SymInt(_Num):
    __slots__ = ()

    @property
    def __class__(self):
        return int

    def __hash__(self):
        return hash(ENGINE.concretize(self.e))

    def __index__(self):
        return ENGINE.concretize(self.e)

    def __int__(self):
        return ENGINE.concretize(self.e)

    def __floordiv__(self, o):
        oe = _ie(o)
        if oe is None or not z3.is_int_value(z3.simplify(oe)) or oe.sort() != z3.IntSort():
            raise Unsupported('floordiv by non-constant')
        if z3.simplify(oe).as_long() <= 0:
            raise Unsupported('floordiv by non-positive constant')
        return SymInt(z3.simplify(self.e / oe))  # z3 int division floors for positive divisors

    def __mod__(self, o):
        oe = _ie(o)
        if oe is None or not z3.is_int_value(z3.simplify(oe)) or z3.simplify(oe).as_long() <= 0:
            raise Unsupported('mod by non-constant')
        return SymInt(z3.simplify(self.e % oe))


class SymReal(_Num):
    __slots__ = ()

    @property
    def __class__(self):
        return float

    def __hash__(self):
        raise Unsupported('hash of SymReal')

    def __float__(self):
        raise Unsupported('float() of SymReal')

    def __ceil__(self):
        return SymInt(z3.simplify(-z3.ToInt(-self.e)))

    def __floor__(self):
        return SymInt(z3.simplify(z3.ToInt(self.e)))


def is_sym(x):
    return isinstance(x, (_Num, SymBool))


def term(x):
    """z3 term of a python/sym int or bool."""
    if isinstance(x, SymBool):
        return x.e
    if type(x) is bool:
        return z3.BoolVal(x)
    if isinstance(x, z3.ExprRef):
        return x
    r = _ie(x)
    if r is None:
        raise Unsupported(f'no term for {x!r}')
    return r


# ---------------------------------------------------------------------------
# the symbolic engine

class ViolationRecord:
    __slots__ = ('rule', 'msg', 'script', 'extra')

    def __init__(self, rule, msg, script, extra=None):
        self.rule = rule
        self.msg = msg
        self.script = script
        self.extra = extra or {}

    def to_json(self):
        return {'rule': self.rule, 'msg': self.msg, 'script': self.script, 'extra': self.extra}


class Stats:
    def __init__(self):
        self.paths = 0
        self.cuts = 0
        self.dead = 0
        self.decisions = 0
        self.queries = 0
        self.sat = 0
        self.unsat = 0
        self.unknown = 0
        self.solver_s = 0.0
        self.checks = 0          # obligations evaluated by engine.check (non-trivial ones)
        self.checks_trivial = 0
        self.model_hits = 0
        self.sig_fallbacks = 0

    def add(self, o):
        for k, v in o.__dict__.items():
            setattr(self, k, getattr(self, k) + v)

    def as_dict(self):
        d = dict(self.__dict__)
        d['solver_s'] = round(d['solver_s'], 3)
        return d


class Engine:
    mode = 'sym'

    def __init__(self, timeout_ms=10000):
        self.timeout_ms = timeout_ms
        self.solver = z3.Solver()
        self.solver.set('timeout', timeout_ms)
        self.stats = Stats()
        self.prefix = []
        self.trace = []
        self.pos = 0
        self.vars = {}
        self.var_order = []
        self.choices = []
        self.violations = []     # of the current path
        self.inconclusive = []
        self.model = None
        self.notes = {}          # per-path scratch space for harnesses
        self.keep = -1
        self.scopes = 0
        self.export = None       # list of (smt2 text, z3 verdict) for the second-solver cross-check, or None
        self.export_cap = 0
        self.export_seen = 0

    # -- variables ---------------------------------------------------------
    def _new(self, name, mk, *cons):
        v = self.vars.get(name)
        if v is None:
            v = mk(name)
            self.vars[name] = v
            self.var_order.append(name)
            for c in cons:
                self._assume(c(v))
        return v

    def int(self, name, lo=None, hi=None):
        cons = []
        if lo is not None:
            cons.append(lambda v: v >= term(lo))
        if hi is not None:
            cons.append(lambda v: v <= term(hi))
        return SymInt(self._new(name, z3.Int, *cons))

    def real(self, name, lo=None, hi=None):
        cons = []
        if lo is not None:
            cons.append(lambda v: v >= term(lo))
        if hi is not None:
            cons.append(lambda v: v <= term(hi))
        return SymReal(self._new(name, z3.Real, *cons))

    def bool(self, name):
        return SymBool(self._new(name, z3.Bool))

    def bv(self, name, n):
        return self._new(name, lambda nm: z3.BitVec(nm, n))

    def flag(self, name):
        """A choice-symbolic boolean: decided at once (forks), returns a Python bool."""
        return bool(self.bool(name))

    # -- solver ------------------------------------------------------------
    def _assume(self, c):
        if self.pos <= self.keep:
            return  # replaying: the constraint is still in the solver (kept scope)
        self.solver.add(c)
        if self.model is not None:
            try:
                if not z3.is_true(self.model.eval(c, model_completion=True)):
                    self.model = None
            except z3.Z3Exception:
                self.model = None

    def assume(self, c):
        """Constrain the path (a stated assumption about the environment)."""
        if self.pos <= self.keep:
            return
        c = term(c)
        c = z3.simplify(c)
        if z3.is_true(c):
            return
        self._assume(c)
        ok, _ = self._sat()
        if not ok:
            raise PathDead()

    def _sat(self, *es):
        """is pc and es satisfiable?  returns (bool, model or None)"""
        st = self.stats
        if self.model is not None:
            try:
                if all(z3.is_true(self.model.eval(e, model_completion=True)) for e in es):
                    st.model_hits += 1
                    return True, self.model
            except z3.Z3Exception:
                pass
        t0 = _time.perf_counter()
        st.queries += 1
        if es:
            self.solver.push()
        try:
            for e in es:
                self.solver.add(e)
            r = str(self.solver.check())
            m = self.solver.model() if r == 'sat' else None
        finally:
            if es:
                self.solver.pop()
        st.solver_s += _time.perf_counter() - t0
        if self.export is not None and r in ('sat', 'unsat'):
            self._export(es, r)
        if r == 'sat':
            st.sat += 1
            if not es:
                self.model = m
            return True, m
        if r == 'unsat':
            st.unsat += 1
            return False, None
        st.unknown += 1
        raise Unsupported('solver answered unknown')

    def _export(self, es, verdict):
        """Keep the query just answered (whole assertion stack + es) as SMT-LIB2 text for the second solver.
        Every stride-th query is kept so that the cap spreads over the whole exploration."""
        self.export_seen += 1
        if len(self.export) >= self.export_cap or (self.export_seen - 1) % self.export_stride:
            return
        tmp = z3.Solver()
        tmp.add(self.solver.assertions())
        for e in es:
            tmp.add(e)
        self.export.append((tmp.to_smt2(), verdict))

    export_stride = 1

    # -- decisions ---------------------------------------------------------
    def _same_term(self, recorded, now):
        """determinism check of re-execution: the term decided now must be the recorded one.
        z3's simplifier orders commutative arguments by AST id, so a syntactic mismatch is
        re-checked semantically (one small query)."""
        if recorded is None or recorded.eq(now):
            return True
        if recorded.sort() != now.sort():
            return False
        self.stats.sig_fallbacks += 1
        s = z3.Solver()
        s.set('timeout', 5000)
        s.add(recorded != now)
        return str(s.check()) == 'unsat'

    def _decide(self, kind, conds, sig):
        """conds: list of z3 bools (alternatives).  returns index chosen."""
        if self.pos < len(self.prefix):
            k, feas, chosen, s = self.prefix[self.pos]
            if k != kind or not self._same_term(s, sig):
                raise HarnessError(
                    f'non-deterministic re-execution at decision {self.pos}: '
                    f'{k}/{s} recorded, {kind}/{sig} now')
            mdl = None
        else:
            if self.split_depth is not None and self.pos >= self.split_depth:
                raise SplitPoint()
            feas = []
            mdl = {}
            for i, c in enumerate(conds):
                ok, m = self._sat(c)
                if ok:
                    feas.append(i)
                    mdl[i] = m
            if not feas:
                raise HarnessError('no feasible alternative at a decision (path condition unsat?)')
            chosen = feas[0]
        self.trace.append((kind, feas, chosen, sig))
        idx = self.pos
        self.pos += 1
        self.stats.decisions += 1
        if idx >= self.keep:
            self.solver.push()
            self.scopes += 1
            self.solver.add(conds[chosen])
            if mdl is not None and mdl.get(chosen) is not None:
                self.model = mdl[chosen]
            elif self.model is not None:
                try:
                    if not z3.is_true(self.model.eval(conds[chosen], model_completion=True)):
                        self.model = None
                except z3.Z3Exception:
                    self.model = None
        return chosen

    def branch(self, e):
        e = z3.simplify(e)
        if z3.is_true(e):
            return True
        if z3.is_false(e):
            return False
        return self._decide('b', [e, z3.Not(e)], e) == 0

    def concretize(self, e, limit=64):
        e = z3.simplify(e)
        if z3.is_int_value(e):
            return e.as_long()
        sig = e
        if self.pos < len(self.prefix):
            k, vals, chosen, s = self.prefix[self.pos]
            if k != 'c' or not self._same_term(s, sig):
                raise HarnessError(f'non-deterministic re-execution at decision {self.pos} (concretize)')
            self.trace.append((k, vals, chosen, s))
            idx = self.pos
            self.pos += 1
            if idx >= self.keep:
                self.solver.push()
                self.scopes += 1
                self.solver.add(e == chosen)
                self.model = None
            return chosen
        if self.split_depth is not None and self.pos >= self.split_depth:
            raise SplitPoint()
        vals = []
        while True:
            ok, m = self._sat(*[e != v for v in vals])
            if not ok:
                break
            vals.append(m.eval(e, model_completion=True).as_long())
            if len(vals) > limit:
                raise Unsupported(f'unbounded concretisation of {e}')
        if not vals:
            raise HarnessError('concretize: path condition unsat')
        vals.sort()
        chosen = vals[0]
        self.trace.append(('c', vals, chosen, sig))
        self.pos += 1
        self.stats.decisions += 1
        self.solver.push()
        self.scopes += 1
        self.solver.add(e == chosen)
        self.model = None
        return chosen

    def choose(self, n, label='choice'):
        """Explicit finite choice (reply order, fault point, ...): all n values are explored."""
        if n <= 0:
            raise HarnessError('choose(0)')
        idx = len(self.choices)
        if n == 1:
            self.choices.append((label, 0))
            return 0
        v = self.int(f'?{idx}.{label}', 0, n - 1)
        r = self.concretize(v.e)
        self.choices.append((label, r))
        return r

    # -- obligations -------------------------------------------------------
    def script(self, model):
        vals = {}
        for name in self.var_order:
            v = self.vars[name]
            if name.startswith('?'):
                continue
            x = model.eval(v, model_completion=True)
            if z3.is_int_value(x):
                vals[name] = x.as_long()
            elif z3.is_rational_value(x):
                vals[name] = str(x.as_fraction())
            elif z3.is_true(x) or z3.is_false(x):
                vals[name] = z3.is_true(x)
            elif z3.is_bv_value(x):
                vals[name] = x.as_long()
            else:
                vals[name] = str(x)
        return {'vars': vals, 'choices': [list(c) for c in self.choices]}

    def check(self, cond, rule, msg='', extra=None):
        """Obligation: cond must hold on this path for all values.  Returns True if it
        does; otherwise records a violation (with a model) and goes on with the values for
        which cond holds, if any.  The outcome is part of the decision trace (one
        alternative), so a re-executed prefix neither re-evaluates nor re-reports it."""
        if type(cond) is bool:
            c = z3.BoolVal(cond)
        else:
            c = z3.simplify(term(cond))
        if z3.is_true(c):
            self.stats.checks_trivial += 1
            return True
        sig = c
        idx = self.pos
        if idx < len(self.prefix):
            k, feas, code, sg = self.prefix[idx]
            if k != 'k' or not self._same_term(sg, sig):
                raise HarnessError(f'non-deterministic re-execution at decision {idx} (check {rule})')
        else:
            if self.split_depth is not None and idx >= self.split_depth:
                raise SplitPoint()
            self.stats.checks += 1
            code = 0
            try:
                bad, m = self._sat(z3.Not(c))
            except Unsupported:
                self.inconclusive.append((rule, msg() if callable(msg) else msg))
                bad = False
                code = 3
            if bad:
                self.violations.append(ViolationRecord(rule, msg() if callable(msg) else msg, self.script(m), extra))
                ok2, _ = self._sat(c)
                code = 1 if ok2 else 2
        self.trace.append(('k', [code], code, sig))
        self.pos += 1
        if idx >= self.keep:
            self.solver.push()
            self.scopes += 1
            if code in (0, 1):
                self.solver.add(c)
                if self.model is not None:
                    try:
                        if not z3.is_true(self.model.eval(c, model_completion=True)):
                            self.model = None
                    except z3.Z3Exception:
                        self.model = None
        return code in (0, 3)

    def alarm(self, rule, msg='', extra=None):
        """A monitor written in plain Python reached a violating branch: the current
        path condition is satisfiable, any model of it is a counterexample."""
        if self.pos <= self.keep:
            return  # re-executed prefix: reported by the path that first got here
        ok, m = self._sat()
        if not ok:
            raise HarnessError('alarm on an infeasible path')
        self.stats.checks += 1
        self.violations.append(ViolationRecord(rule, msg, self.script(m), extra))

    def reachable(self):
        ok, _ = self._sat()
        return ok

    # -- exploration -------------------------------------------------------
    split_depth = None

    def _reset_path(self):
        self.trace = []
        self.pos = 0
        self.vars = {}
        self.var_order = []
        self.choices = []
        self.violations = []
        self.inconclusive = []
        self.model = None
        self.notes = {}

    def explore(self, fn, seed=(), budget_s=1e9, max_paths=10**9, split_depth=None, on_path=None):
        """Explore all paths of fn(engine) whose decision sequence starts with `seed`.

        Returns dict(results=[...], complete=bool, prefixes=[...]).  Each result is
        (status, value, violations, inconclusive) with status in
        ok / cut / dead / error.
        """
        t0 = _time.perf_counter()
        frozen = len(seed)
        self.prefix = list(seed)
        self.split_depth = split_depth
        self.solver.reset()
        self.solver.set('timeout', self.timeout_ms)
        self.scopes = 0
        self.keep = -1
        results = []
        prefixes = []
        complete = True
        while True:
            self._reset_path()
            _set_engine(self)
            status, value = 'ok', None
            try:
                value = fn(self)
            except PathCut as c:
                status, value = 'cut', c.why
                self.stats.cuts += 1
            except PathDead:
                status = 'dead'
                self.stats.dead += 1
            except SplitPoint:
                status = 'split'
                prefixes.append([(k, f, c, None) for (k, f, c, _s) in self.trace])
            finally:
                _set_engine(None)
            if status != 'split':
                self.stats.paths += 1
                res = (status, value, list(self.violations), list(self.inconclusive))
                results.append(res)
                if on_path is not None:
                    on_path(res)
            tr = self.trace
            while len(tr) > frozen:
                kind, feas, chosen, sig = tr[-1]
                idx = feas.index(chosen)
                if idx + 1 < len(feas):
                    tr[-1] = (kind, feas, feas[idx + 1], sig)
                    break
                tr.pop()
            if len(tr) <= frozen:
                break
            if self.stats.paths >= max_paths or _time.perf_counter() - t0 > budget_s:
                complete = False
                break
            self.prefix = list(tr)
            # keep the solver scopes of the unchanged decisions tr[:-1]
            self.keep = len(tr) - 1
            if self.scopes > self.keep:
                self.solver.pop(self.scopes - self.keep)
                self.scopes = self.keep
            elif self.scopes < self.keep:
                raise HarnessError('solver scopes out of sync with the decision trace')
        return {'results': results, 'complete': complete, 'prefixes': prefixes}


# ---------------------------------------------------------------------------
# concrete replay engine (no solver in the loop)

class ConcreteEngine:
    mode = 'concrete'

    def __init__(self, script, stop_rule=None):
        self.stop_rule = stop_rule
        self.vals = dict(script.get('vars', {}))
        self.choice_list = [tuple(c) for c in script.get('choices', [])]
        self.cpos = 0
        self.violations = []
        self.inconclusive = []
        self.stats = Stats()
        self.notes = {}
        self.choices = []
        self.defaults_used = []

    def _get(self, name, default):
        if name in self.vals:
            return self.vals[name]
        self.defaults_used.append(name)
        return default

    def int(self, name, lo=None, hi=None):
        d = lo if lo is not None else (hi if hi is not None else 0)
        return int(self._get(name, d))

    def real(self, name, lo=None, hi=None):
        from fractions import Fraction
        d = lo if lo is not None else 0
        return Fraction(self._get(name, d))

    def bool(self, name):
        return bool(self._get(name, False))

    flag = bool

    def bv(self, name, n):
        return int(self._get(name, 0))

    def assume(self, c):
        if not c:
            raise ReplayDiverged('assumption false under the script')

    def choose(self, n, label='choice'):
        if self.cpos >= len(self.choice_list):
            r = 0  # beyond the recorded prefix: any choice will do
        else:
            lab, r = self.choice_list[self.cpos]
            if lab != label:
                raise ReplayDiverged(f'choice label {label} expected {lab}')
            self.cpos += 1
            if r >= n:
                raise ReplayDiverged('choice out of range')
        self.choices.append((label, r))
        return r

    def concretize(self, e):
        return e

    def branch(self, e):
        return bool(e)

    def check(self, cond, rule, msg='', extra=None):
        if isinstance(cond, z3.ExprRef):
            # an oracle written as a z3 term: ground under concrete values
            g = z3.simplify(cond)
            if not (z3.is_true(g) or z3.is_false(g)):
                raise ReplayDiverged(f'oracle term is not ground in replay: {g}')
            cond = z3.is_true(g)
        if bool(cond):
            return True
        self.violations.append(ViolationRecord(rule, msg() if callable(msg) else msg, None, extra))
        if rule == self.stop_rule:
            raise ReplayDone()
        return False

    def alarm(self, rule, msg='', extra=None):
        self.violations.append(ViolationRecord(rule, msg, None, extra))
        if rule == self.stop_rule:
            raise ReplayDone()

    def reachable(self):
        return True

    def run(self, fn):
        _set_engine(self)
        try:
            try:
                return 'ok', fn(self)
            except PathCut as c:
                return 'cut', c.why
            except PathDead:
                return 'dead', None
            except ReplayDone:
                return 'stopped-at-violation', None
        finally:
            _set_engine(None)

#!/bin/bash
# Idempotent, offline: build the overlay venv /verif/.venv (not committed).
#   - python: /venv/bin/python (3.12, has mosaik editable from /repo and its deps)
#   - adds: z3-solver, crosshair-tool, jsonschema (from the offline wheelhouse)
set -e
HERE="$(cd "$(dirname "$0")" && pwd)"
VENV="$HERE/.venv"
STAMP="$VENV/.ok3"
if [ -f "$STAMP" ]; then exit 0; fi
exec 9>"$HERE/.venv.lock"
flock 9
if [ -f "$STAMP" ]; then exit 0; fi
rm -rf "$VENV"
/venv/bin/python -m venv "$VENV" >/dev/null
SP="$VENV/lib/python3.12/site-packages"
echo "import site; site.addsitedir('/venv/lib/python3.12/site-packages')" > "$SP/_overlay.pth"
PIP_NO_INDEX=1 "$VENV/bin/pip" install -q --no-index --find-links /opt/veriftools/wheels \
    z3-solver crosshair-tool jsonschema >/dev/null 2>"$VENV/pip.err" || { cat "$VENV/pip.err" >&2; exit 3; }
"$VENV/bin/python" - <<'EOF'
import z3, crosshair, mosaik, mosaik_api_v3, jsonschema
EOF
touch "$STAMP"

"""Second engine for C08: CrossHair (symbolic execution of Python with z3, independent of vk.engine)
re-decides the O1/O3 obligations per shape pair on the real TieredInterval code.

One contract function per shape pair is generated into a scratch module; `crosshair check --report_all
--per_condition_timeout T` is run on each function in its own process.  Only "Confirmed over all paths"
counts as agreement; a counterexample is a disagreement between the engines (reported as a harness
error unless vk.engine found the same violation), anything else is inconclusive."""
from __future__ import annotations

import os
import re
import subprocess
import sys
import tempfile
import time
from concurrent.futures import ThreadPoolExecutor

HEADER = '''
from mosaik.tiered_time import TieredInterval as TI

# formatting stub: the 'incomparable' assertion message formats the tiers, which would make CrossHair realise
# (concretise) the symbolic ints; message formatting is not the subject of C08
TI.__repr__ = lambda self: '<TieredInterval>'


def LE(at, ac, bt, bc, i=0):
    """forall t >= 0: t + a <=lex t + b   (quantifier-free recursion, see DESIGN.md C08)"""
    if i == len(at):
        return True
    x, y = at[i], bt[i]
    a_add, b_add = i < ac, i < bc
    if a_add and not b_add:
        return False
    return x < y or (x == y and LE(at, ac, bt, bc, i + 1))


def mixed_equal(at, ac, bt, bc):
    lo, hi = min(ac, bc), max(ac, bc)
    for i in range(lo, hi):
        if all(at[j] == bt[j] for j in range(i + 1)):
            return True
    return False


def lt(a, b):
    try:
        return a < b
    except AssertionError:
        return None
'''

FUNC = '''

def pair_{name}({params}) -> bool:
    """
    pre: {pre}
    post: _
    """
    at, bt = ({a_t},), ({b_t},)
    a = TI(*at, cutoff={ac}, pre_length={p})
    b = TI(*bt, cutoff={bc}, pre_length={p})
    if {mixed}:
        return True                      # known finding P10, decided separately by vk.engine
    le_ab, le_ba = LE(at, {ac}, bt, {bc}), LE(bt, {bc}, at, {ac})
    r, r2 = lt(a, b), lt(b, a)
    if r is None or r2 is None:
        return not (le_ab or le_ba)      # O1: no incomparable-assertion on a comparable pair
    if r and not le_ab:
        return False                     # O3
    if r2 and not le_ba:
        return False
    if le_ab or le_ba:
        eq = a == b
        if (r + r2 + eq) != 1:
            return False                 # O1 trichotomy
        if le_ab and not le_ba and not (r and not r2):
            return False
        if le_ba and not le_ab and not (r2 and not r):
            return False
    return True
'''


def generate(maxlen, path):
    from vk.kernels.c08 import shapes
    S = list(shapes(maxlen))
    names = []
    with open(path, 'w') as f:
        f.write(HEADER)
        for sa in S:
            for sb in S:
                if sa[0] != sb[0] or sa[2] != sb[2]:
                    continue
                p, ac, n = sa
                bc = sb[1]
                av = [f'a{i}' for i in range(n)]
                bv = [f'b{i}' for i in range(n)]
                name = f'p{p}_n{n}_c{ac}_c{bc}'
                names.append(name)
                lo, hi = min(ac, bc), max(ac, bc)
                alts = [' and '.join(f'a{j} == b{j}' for j in range(i + 1)) for i in range(lo, hi)]
                mixed = ' or '.join(f'({x})' for x in alts) if alts else 'False'
                f.write(FUNC.format(name=name, mixed=mixed, params=', '.join(f'{v}: int' for v in av + bv),
                                    pre=' and '.join(f'{v} >= 0' for v in av + bv),
                                    a_t=', '.join(av), b_t=', '.join(bv), ac=ac, bc=bc, p=p))
    return names


def run(maxlen=3, timeout=30, nproc=12):
    here = os.path.dirname(os.path.dirname(os.path.dirname(os.path.abspath(__file__))))
    repo = os.environ.get('VK_REPO', '/repo')
    tmp = tempfile.mkdtemp(prefix='vkxh')
    mod = os.path.join(tmp, 'c08_contracts.py')
    names = generate(maxlen, mod)
    src = open(mod).read().splitlines()
    lines = {}
    for i, ln in enumerate(src, 1):
        m = re.match(r'def pair_(\w+)\(', ln)
        if m:
            lines[m.group(1)] = i + 1
    env = dict(os.environ)
    env['PYTHONPATH'] = f'{repo}:{tmp}'
    crosshair = os.path.join(here, '.venv', 'bin', 'crosshair')

    def one(name):
        t0 = time.time()
        try:
            pr = subprocess.run([crosshair, 'check', '--report_all', '--per_condition_timeout', str(timeout), f'{mod}:{lines[name]}'],
                                capture_output=True, text=True, env=env, timeout=timeout * 4 + 60)
            out = (pr.stdout + pr.stderr).strip()
        except subprocess.TimeoutExpired:
            out = 'TIMEOUT'
        if 'Confirmed over all paths' in out:
            verdict = 'confirmed'
        elif 'false when calling' in out or 'error:' in out.lower() and 'when calling' in out:
            verdict = 'counterexample'
        else:
            verdict = 'inconclusive'
        return name, verdict, out[-300:], round(time.time() - t0, 1)
    with ThreadPoolExecutor(nproc) as ex:
        res = list(ex.map(one, names))
    import shutil
    shutil.rmtree(tmp, ignore_errors=True)
    return res


if __name__ == '__main__':
    r = run(int(sys.argv[1]) if len(sys.argv) > 1 else 2)
    for x in r:
        print(x)

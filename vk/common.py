"""Job runner, evidence writer, known-findings matcher, replay files."""
from __future__ import annotations

import collections
import hashlib
import importlib
import json
import multiprocessing as mp
import os
import re
import sys
import time
import traceback

HERE = os.path.dirname(os.path.dirname(os.path.abspath(__file__)))
_OUT = os.environ.get('VK_OUT') or HERE          # VK_OUT: scratch output directory for runs against a mutated copy
EVIDENCE_DIR = os.path.join(_OUT, 'evidence')
REPLAY_DIR = os.path.join(_OUT, 'replays')
KNOWN_FILE = os.path.join(HERE, 'known_findings.json')
REPO = os.environ.get('VK_REPO', '/repo').rstrip('/')   # the tree under analysis (default: /repo's working tree)

EXIT_OK, EXIT_VIOLATION, EXIT_HARNESS = 0, 1, 2


def load_harness(spec, params):
    mod, fn = spec.split(':')
    return getattr(importlib.import_module(mod), fn)(**params)


class FuncProfile:
    """Collects the mosaik functions executed (first path of a job)."""

    def __init__(self):
        self.seen = set()

    def __call__(self, frame, event, arg):
        if event == 'call':
            co = frame.f_code
            fn = co.co_filename
            if fn.startswith(REPO + '/mosaik/'):
                self.seen.add(f"{fn[len(REPO) + 1:]}:{co.co_qualname}")


def _short(v, n=400):
    s = repr(v)
    return s if len(s) <= n else s[:n] + '...'


def run_job(job):
    """Executed in a worker process.  Returns a picklable summary."""
    from vk import engine as E
    t0 = time.perf_counter()
    out = {'id': job['id'], 'harness': job['harness'], 'params': job['params'],
           'error': None, 'violations': [], 'complete': False}
    try:
        harness = load_harness(job['harness'], job['params'])
        eng = E.Engine(timeout_ms=job.get('solver_timeout_ms', 10000))
        if job.get('xsolver_cap'):
            eng.export = []
            eng.export_cap = job['xsolver_cap']
            eng.export_stride = job.get('xsolver_stride', 1)
        prof = FuncProfile()
        first = [True]
        outcomes = collections.Counter()
        samples = []
        viols = []
        nontrivial = [0]
        inconcl = []

        def wrapped(e):
            if first[0]:
                first[0] = False
                sys.setprofile(prof)
                try:
                    return harness(e)
                finally:
                    sys.setprofile(None)
            return harness(e)

        def on_path(res):
            status, value, vs, inc = res
            key = status if status != 'ok' else 'ok:' + str(value[0] if isinstance(value, tuple) and value else value)
            outcomes[key[:80]] += 1
            if isinstance(value, tuple) and len(value) > 1 and isinstance(value[1], dict):
                if value[1].get('nontrivial'):
                    nontrivial[0] += 1
            if len(samples) < job.get('n_samples', 2):
                samples.append({'status': status, 'value': _short(value, 1500),
                                'decisions': len(eng.trace),
                                'vars': [str(n) for n in eng.var_order[:40]]})
            for v in vs:
                if len(viols) < 200:
                    viols.append(v)
            inc and inconcl.extend(inc[:5])

        res = eng.explore(wrapped, seed=job.get('seed', ()), budget_s=job.get('budget_s', 600),
                          max_paths=job.get('max_paths', 10**9), split_depth=job.get('split_depth'),
                          on_path=on_path)
        out['complete'] = res['complete']
        out['prefixes'] = res['prefixes']
        out['stats'] = eng.stats.as_dict()
        out['outcomes'] = dict(outcomes)
        out['samples'] = samples
        out['nontrivial'] = nontrivial[0]
        out['functions'] = sorted(prof.seen)
        out['inconclusive'] = inconcl[:20]
        if eng.export is not None:
            from vk.xcheck import second_solver
            out['xsolver'] = second_solver.crosscheck(eng.export)
            out['xsolver']['of_queries'] = eng.export_seen
            eng.export = None
        # dedupe violations per (rule, fingerprint) and replay them concretely
        seen = {}
        for v in viols:
            fp = (v.rule, json.dumps(v.extra.get('fp', None), sort_keys=True, default=str))
            if fp in seen:
                seen[fp]['count'] += 1
                continue
            rec = v.to_json()
            rec['count'] = 1
            rec['reproduced'], rec['replay_detail'] = replay_script(job['harness'], job['params'], v.script, v.rule)
            seen[fp] = rec
        out['violations'] = list(seen.values())
    except BaseException as e:  # noqa
        out['error'] = f'{type(e).__name__}: {e}\n{traceback.format_exc()[-3000:]}'
    out['wall_s'] = round(time.perf_counter() - t0, 3)
    return out


def replay_script(harness_spec, params, script, rule):
    """Run the harness on the real code with plain Python values.  Returns
    (reproduced?, detail)."""
    from vk import engine as E
    try:
        harness = load_harness(harness_spec, params)
        ce = E.ConcreteEngine(script, stop_rule=rule)
        status, value = ce.run(harness)
        rules = [v.rule for v in ce.violations]
        if rule in rules:
            v = [v for v in ce.violations if v.rule == rule][0]
            return True, {'status': status, 'msg': v.msg, 'value': _short(value, 3000)}
        return False, {'status': status, 'rules_seen': rules, 'value': _short(value, 1500)}
    except BaseException as e:  # noqa
        return False, {'exception': f'{type(e).__name__}: {e}', 'tb': traceback.format_exc()[-1500:]}


def _init_worker():
    # workers must be quiet and deterministic
    os.environ.setdefault('PYTHONHASHSEED', '0')
    sys.stdout = open(os.devnull, 'w')   # simulators / mosaik_api print; only the main process reports
    import warnings
    warnings.simplefilter('ignore')
    try:
        from loguru import logger
        logger.remove()
    except Exception:
        pass


def with_xsolver(jobs, cap, stride=1):
    """Ask for the second-solver cross-check (vk.xcheck.second_solver) on up to `cap` queries per job, every stride-th."""
    for j in jobs:
        j['xsolver_cap'] = cap
        j['xsolver_stride'] = stride
    return jobs


def run_jobs(jobs, nproc=None, progress=False, deadline_s=None):
    """Run jobs in a process pool.  Jobs with 'split_depth' are expanded into
    sub-jobs (one per decision prefix) which are then run too."""
    nproc = nproc or min(16, os.cpu_count() or 4)
    results = []
    dcap = int(os.environ.get('VK_XSOLVER_CAP', '30') or 0)
    if dcap:
        for j in jobs:      # default: a strided sample of every job's solver queries is re-decided by cvc5
            j.setdefault('xsolver_cap', dcap)
            j.setdefault('xsolver_stride', int(os.environ.get('VK_XSOLVER_STRIDE', '11')))
    t0 = time.perf_counter()
    ctx = mp.get_context('forkserver')
    with ctx.Pool(nproc, initializer=_init_worker, maxtasksperchild=50) as pool:
        pending = list(jobs)
        it = pool.imap_unordered(run_job, pending, chunksize=1)
        sub = []
        for r in it:
            if r.get('prefixes'):
                base = [j for j in pending if j['id'] == r['id']][0]
                for i, p in enumerate(r['prefixes']):
                    j = dict(base)
                    j['id'] = f"{base['id']}#p{i}"
                    j['seed'] = p
                    j['split_depth'] = None
                    j['parent'] = base['id']
                    sub.append(j)
            results.append(r)
            if progress:
                print(f"  [{time.perf_counter()-t0:6.1f}s] {r['id']}: "
                      f"{r.get('outcomes')} complete={r['complete']} err={bool(r['error'])}", file=sys.stderr)
        if sub:
            for r in pool.imap_unordered(run_job, sub, chunksize=1):
                results.append(r)
                if progress:
                    print(f"  [{time.perf_counter()-t0:6.1f}s] {r['id']}: "
                          f"{r.get('outcomes')} complete={r['complete']} err={bool(r['error'])}", file=sys.stderr)
    return results


# ---------------------------------------------------------------------------
# known findings

def load_known():
    if not os.path.exists(KNOWN_FILE):
        return []
    with open(KNOWN_FILE) as f:
        return json.load(f)['findings']


def _subset(pattern, obj):
    if isinstance(pattern, dict):
        if not isinstance(obj, dict):
            return False
        return all(k in obj and _subset(v, obj[k]) for k, v in pattern.items())
    if isinstance(pattern, list) and pattern and pattern[0] == '$in':
        return obj in pattern[1:]
    if isinstance(pattern, str) and pattern.startswith('$re:'):
        return isinstance(obj, str) and re.search(pattern[4:], obj) is not None
    return pattern == obj


def _match_one(m, viol, job):
    if 'rule' in m and not re.fullmatch(m['rule'], viol['rule']):
        return False
    if 'msg_re' in m and not re.search(m['msg_re'], viol.get('msg') or ''):
        return False
    if 'extra' in m and not _subset(m['extra'], viol.get('extra') or {}):
        return False
    if 'params' in m and not _subset(m['params'], job.get('params') or {}):
        return False
    return True


def match_known(known, prop, viol, job):
    """Return the open known finding that lists this violation, or None."""
    for k in known:
        if k.get('status') != 'open':
            continue
        if prop not in k.get('properties', [k.get('property')]):
            continue
        ms = k['match'] if isinstance(k['match'], list) else [k['match']]
        if not any(_match_one(m, viol, job) for m in ms):
            continue
        return k
    return None


# ---------------------------------------------------------------------------
# result aggregation / evidence

class Report:
    def __init__(self, prop, tier, seed):
        self.prop = prop
        self.tier = tier
        self.seed = seed
        self.t0 = time.perf_counter()
        self.jobs = []
        self.extra_cov = {}
        self.assumptions = []
        self.bounds = {}
        self.notes = []
        self.harness_errors = []
        self.rule = ''
        self.explanation = ''
        self.extra_samples = []
        self.side = {}          # side results (crosshair, cvc5, selftests)
        self.concrete = []      # violations observed in concrete runs of the repository's own scenarios (reference validation)

    def add_jobs(self, results):
        self.jobs.extend(results)

    def harness_error(self, msg):
        self.harness_errors.append(msg)

    def finish(self):
        known = load_known()
        prop = self.prop
        os.makedirs(EVIDENCE_DIR, exist_ok=True)
        os.makedirs(REPLAY_DIR, exist_ok=True)
        for fn in os.listdir(REPLAY_DIR):   # replays of earlier runs of this check
            if fn.startswith(prop + '-') and fn.endswith('.json'):
                os.remove(os.path.join(REPLAY_DIR, fn))
        from vk.engine import Stats
        total = Stats()
        outcomes = collections.Counter()
        functions = set()
        incomplete = []
        nontrivial = 0
        samples = []
        violations_new = []
        known_hit = collections.OrderedDict()
        unreproduced = []
        n_inconcl = 0
        for r in self.jobs:
            if r['error']:
                self.harness_errors.append(f"job {r['id']}: {r['error']}")
                continue
            for k, v in r['stats'].items():
                setattr(total, k, getattr(total, k) + v)
            for k, v in r['outcomes'].items():
                outcomes[k] += v
            functions.update(r['functions'])
            nontrivial += r.get('nontrivial', 0)
            if not r['complete'] and not r.get('prefixes'):
                incomplete.append(r['id'])
            n_inconcl += len(r.get('inconclusive') or [])
            if r.get('xsolver'):
                from vk.xcheck import second_solver
                xs = second_solver.merge(self.side.setdefault('second_solver_cvc5', {'engine': 'cvc5 1.0.3 binary, --incremental, one process per job'}), r['xsolver'])
                xs['of_z3_queries'] = xs.get('of_z3_queries', 0) + r['xsolver'].get('of_queries', 0)
                for d in r['xsolver']['disagree'][:2]:
                    self.harness_errors.append(f"solvers disagree on a query of job {r['id']}: z3 {d['z3']}, cvc5 {d['cvc5']}: {d.get('smt2', '')[:600]}")
            if len(samples) < 6 and r['samples']:
                samples.append({'job': r['id'], 'params': r['params'], 'path': r['samples'][0]})
            for v in r['violations']:
                if not v['rule'].startswith(prop):
                    # rule of another property observed in a shared run: reported by that property's check
                    continue
                if not v['reproduced']:
                    unreproduced.append((r, v))
                    continue
                k = match_known(known, prop, v, r)
                if k is not None:
                    e = known_hit.setdefault(k['id'], {'finding': k, 'count': 0, 'example': None})
                    e['count'] += v['count']
                    e['example'] = e['example'] or {'job': r['id'], 'msg': v['msg']}
                else:
                    violations_new.append((r, v))
        for r, v in unreproduced:
            self.harness_errors.append(
                f"candidate violation did not replay on the real code (encoding or stub wrong): job {r['id']} "
                f"rule {v['rule']} {v['msg']} detail={v['replay_detail']}")
        lines = []
        for kid, e in known_hit.items():
            lines.append(f"KNOWN-FINDING: property={prop} {kid}: {e['finding']['what']} "
                         f"[matched {e['count']} path(s), e.g. job {e['example']['job']}]")
        seen_fp = set()
        n_viol = 0
        for r, v in violations_new:
            fp = (v['rule'], json.dumps((v.get('extra') or {}).get('fp', r['id']), sort_keys=True, default=str))
            if fp in seen_fp:
                continue
            seen_fp.add(fp)
            n_viol += 1
            if n_viol > 12:
                continue
            h = hashlib.sha1(json.dumps([r['id'], v['rule'], v['script']], sort_keys=True, default=str).encode()).hexdigest()[:10]
            path = os.path.join(REPLAY_DIR, f"{prop}-{h}.json")
            with open(path, 'w') as f:
                json.dump({'property': prop, 'rule': v['rule'], 'msg': v['msg'], 'harness': r['harness'],
                           'params': r['params'], 'script': v['script'], 'extra': v.get('extra'),
                           'replay_detail': v['replay_detail'], 'job': r['id']}, f, indent=1, default=str)
            lines.append(f"VIOLATION property={prop} replay={path}")
            lines.append(f"  rule={v['rule']} job={r['id']} {v['msg']}")
        for cv in self.concrete:
            n_viol += 1
            h = hashlib.sha1(json.dumps(cv, sort_keys=True, default=str).encode()).hexdigest()[:10]
            path = os.path.join(REPLAY_DIR, f"{prop}-{h}.json")
            with open(path, 'w') as f:
                json.dump(dict(cv, property=prop, concrete='vk.validate'), f, indent=1, default=str)
            lines.append(f"VIOLATION property={prop} replay={path}")
            lines.append(f"  rule={cv['rule']} scenario={cv['scenario']} cache={cv['cache']} (concrete run of the repository's own scenario test under the reference monitors) {cv['msg']}")
        wall = time.perf_counter() - self.t0
        cov = {
            'explanation': self.explanation or 'bounded symbolic execution of the real code, every branch and obligation decided by z3',
            'evaluations': total.paths,
            'distinct_nontrivial': nontrivial,
            'rule': self.rule,
            'samples': (self.extra_samples + samples)[:8],
            'exhaustive': not incomplete and not self.harness_errors,
            'functions_encoded': sorted(functions),
            'bounds': self.bounds,
            'jobs': len(self.jobs),
            'incomplete_jobs': incomplete[:50],
            'path_cuts': total.cuts,
            'paths_dead_after_violation': total.dead,
            'decisions': total.decisions,
            'queries': {'total': total.queries, 'sat': total.sat, 'unsat': total.unsat, 'unknown': total.unknown,
                        'answered_from_cached_model': total.model_hits},
            'obligations_checked_nontrivially': total.checks,
            'inconclusive_obligations': n_inconcl,
            'solver_s': round(total.solver_s, 2),
            'outcomes': dict(outcomes),
            'known_findings_matched': {k: e['count'] for k, e in known_hit.items()},
            'violations_unlisted': n_viol,
            'side_results': self.side,
            'notes': self.notes,
        }
        cov.update(self.extra_cov)
        ev = {'property_id': prop, 'tier': self.tier, 'seed': self.seed, 'level': 'other',
              'coverage': cov, 'assumptions': self.assumptions, 'wall_s': round(wall, 2),
              'violations': n_viol}
        with open(os.path.join(EVIDENCE_DIR, f'{prop}.json'), 'w') as f:
            json.dump(ev, f, indent=1, default=str)
        for ln in lines:
            print(ln)
        print(f"{prop} {self.tier}: jobs={len(self.jobs)} paths={total.paths} nontrivial={nontrivial} cuts={total.cuts} "
              f"queries={total.queries} (sat {total.sat}/unsat {total.unsat}/unknown {total.unknown}) "
              f"solver={total.solver_s:.1f}s wall={wall:.1f}s incomplete={len(incomplete)} "
              f"known={sum(e['count'] for e in known_hit.values())} violations={n_viol}")
        if incomplete:
            print(f"INCOMPLETE: {len(incomplete)} job(s) hit their budget (reported, not counted as held): {incomplete[:5]}")
        if self.harness_errors:
            for h in self.harness_errors[:10]:
                print('HARNESS-ERROR:', h[:700].replace('\n', ' | '))
            if n_viol:
                return EXIT_VIOLATION
            return EXIT_HARNESS
        if total.unknown or n_inconcl:
            print(f'INCONCLUSIVE: {total.unknown} solver unknown(s), {n_inconcl} inconclusive obligation(s)')
            return EXIT_VIOLATION if n_viol else EXIT_HARNESS
        return EXIT_VIOLATION if n_viol else EXIT_OK

"""C09 Same-time loop guard."""
from vk import common, sysrun
from vk.kernels import c09 as K


def run(rep, tier, seed, args):
    jobs = K.jobs(tier)
    rep.rule = ('one case = one explored path of the real World.run() on a weak-loop scenario with max_loop_iterations = M symbolic (unbounded, >= 1): '
                'the solver decides every comparison of a sub-step index with M, which outputs are present (loop length) and the reply order; '
                'non-trivial = at least two steps were executed')
    rep.bounds = {'loop participants': 'event-based simulators without self-scheduling (one hybrid variant with self-steps)', 'sub-steps': 'K <= 4 (quick) / 6 (thorough) per simulator',
                  'until': 2, 'loop shapes': [t['name'] for t in K.topologies()], 'outside': 'loops with more than one weak connection per cycle are run but the sub-step count is then per tier; longer loops; real-time mode'}
    rep.assumptions = list(sysrun.STUBS) + ['sub-step indices are taken from the reference tiered time (validated against the repository scenarios)']
    rep.add_jobs(common.run_jobs(jobs))

import asyncio, copy, mosaik, mosaik_api_v3, sys
from loguru import logger; logger.remove()
META = {'api_version': '3.0', 'type': 'hybrid', 'models': {'M': {'public': True, 'params': [], 'attrs': ['i', 'o'], 'trigger': ['i'], 'non-persistent': ['o']}}}
class Sim(mosaik_api_v3.Simulator):
    def __init__(self): super().__init__(copy.deepcopy(META))
    def init(self, sid, time_resolution): self.sid=sid; return self.meta
    def create(self, num, model): return [{'eid':'e','type':model}]
    def step(self, time, inputs, max_advance): self.t=time; return time+1
    def get_data(self, outputs): return {}
w = mosaik.World({'S': {'python': '__main__:Sim'}}, skip_greetings=True)
with w.group():
    a = w.start('S', sim_id='A').M(); d = w.start('S', sim_id='D').M(); c = w.start('S', sim_id='C').M()
b = w.start('S', sim_id='B').M()
w.connect(a, c, ('o','i')); w.connect(a, b, ('o','i')); w.connect(b, d, ('o','i')); w.connect(d, c, ('o','i'), weak=True)
try:
    w.run(until=2, print_progress=False); print('ran ok')
except BaseException as e:
    print('run raised', type(e).__name__, str(e)[:100])

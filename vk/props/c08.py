"""C08 Order-consistent delay arithmetic for grouped (tiered) time."""
from vk import common
from vk.kernels import c08 as K


def run(rep, tier, seed, args):
    jobs = common.with_xsolver(K.jobs(tier), cap=2000 if tier == "quick" else 100000)
    maxlen = 3 if tier == 'quick' else 5
    rep.rule = ('one case = one path of the real TieredInterval/TieredTime operators for one shape combination '
                '(pre_length, cutoff, len) with all tier values symbolic (unbounded ints >= 0); non-trivial = the path '
                'reached at least one obligation O1..O6 with a satisfiable path condition; paths are distinct by '
                'construction (disjoint path conditions)')
    rep.bounds = {'tiers_per_delay': f'<= {maxlen} (pairs, addtime), <= {3 if tier == "quick" else 4} (triples), <= {2 if tier == "quick" else 4} (associativity)',
                  'tier_values': 'unbounded integers >= 0 (symbolic)', 'outside': 'deeper group nesting than the stated number of tiers; negative tiers'}
    rep.assumptions = ['tier values are >= 0 (delays are sums of time shifts and weak hops; times start at 0)',
                       'comparable / smaller are defined by the action on all times t >= 0 (quantifier-free recursion, validated against the expanded definition on a box by the le_oracle_validation jobs)',
                       'functools.total_ordering, dataclasses, tuple comparison and min() are executed for real (CPython trusted)',
                       'z3 (python wheel 5.1.0) trusted']
    res = common.run_jobs(jobs)
    rep.add_jobs(res)
    if tier == 'thorough':
        # independent second engine on the O1/O3 obligations (DESIGN.md C08): CrossHair, one process per shape pair
        from vk.xcheck import crosshair_c08
        xr = crosshair_c08.run(maxlen=3, timeout=30)
        verdicts = {}
        for name, verdict, out, secs in xr:
            verdicts.setdefault(verdict, []).append(name)
        rep.side['crosshair'] = {k: len(v) for k, v in verdicts.items()}
        rep.side['crosshair_inconclusive'] = sorted(verdicts.get('inconclusive', []))
        rep.notes.append('CrossHair 0.0.110 re-decides O1/O3 per shape pair (<= 3 tiers): "Confirmed over all paths" on the equal-cutoff pairs; '
                         'the mixed-cutoff pairs stay inconclusive because the f-string of the incomparable-assertion message makes CrossHair realise '
                         'the symbolic tiers (deep_realize in its format intercept); inconclusive is reported, not counted as agreement')
        own_viol = any(v['rule'].startswith('C08.O') and not v['rule'].endswith('/mixed-equal') for r in res if not r['error'] for v in r['violations'])
        if verdicts.get('counterexample') and not own_viol:
            rep.harness_error(f"engines disagree: CrossHair reports a counterexample for {verdicts['counterexample']} where vk.engine found none: "
                              + '; '.join(o for n, v, o, s in xr if v == 'counterexample')[:600])

"""C17 kernel: real-time pacing and external events on a virtual clock.

scheduler.perf_counter and the event loop's time() read one clock value that only the oracle
advances: to the next asyncio timer (plus a symbolic lateness >= 0 where allowed) or by a
symbolic reply latency >= 0.  The selector never blocks; the asyncio timer heap is the real one.
rt_factor and time_resolution are enumerated rationals so that rt_passed / rt_factor stays
linear.  Real arithmetic, not IEEE floats."""
from __future__ import annotations

import asyncio
import contextlib
import copy
import selectors
from fractions import Fraction

import mosaik
import mosaik_api_v3
from mosaik import scheduler
from mosaik.exceptions import ScenarioError, SimulationError

from vk import engine as E
from vk import sysrun
from vk.engine import PathCut
from vk.sysrun import CTX, Deadlock, Livelock


class FakeSelector(selectors._BaseSelectorImpl):
    def select(self, timeout=None):
        return []


class VLoop(asyncio.SelectorEventLoop):
    """virtual-clock loop: replies of asynchronous simulators and timers are released by the engine"""
    MAX_ITER = 4000

    def __init__(self, eng, late=False, latency=False, maxlate=None, events=None):
        super().__init__(selector=FakeSelector())
        self._clock_resolution = Fraction(1, 10**9)
        self.eng = eng
        self.now = frac(0)
        self.pending = []
        self.active = False
        self.late = late
        self.latency = latency
        self.maxlate = maxlate
        self.iters = 0
        self.nvar = 0
        self.deliveries = []
        self.events = list(events or [])   # callables injected at solver-chosen instants
        self.leaked = None
        self.D = 0
        self.reported = []
        self.event_latency = False

    def time(self):
        return self.now

    def _fresh(self, name, lo=0, hi=None):
        self.nvar += 1
        return self.eng.real(f'{name}{self.nvar}', lo, hi)

    def _run_once(self):
        if self.active and not self._stopping:
            self.iters += 1
            if self.iters > self.MAX_ITER:
                self.active = False
                raise Livelock()
            if not self._ready:
                live = sorted(h for h in self._scheduled if not h._cancelled)
                nxt = live[0] if live else None
                opts = []
                for i in range(len(self.pending)):
                    opts.append(('reply', i))
                if not (self.pending and not self.latency):
                    # with instant replies (no symbolic latency) a pending reply arrives before anything that takes time
                    if nxt is not None:
                        opts.append(('timer', None))
                    if self.events:
                        opts.append(('event', 0))     # events are interchangeable (their times are symbolic): injected in list order
                if not opts or (nxt is None and not self.pending):
                    self.active = False
                    raise Deadlock()
                kind, i = opts[self.eng.choose(len(opts), 'rt')]
                if kind == 'timer':
                    late = 0
                    if self.late:
                        late = self._fresh('late', 0, self.maxlate)
                    self.now = nxt._when + late
                    self.deliveries.append(('timer', self.now))
                else:
                    lat = 0
                    if self.latency or (self.event_latency and kind == 'event'):
                        lat = self._fresh('lat', 0)
                    new_now = self.now + lat
                    if nxt is not None and (self.latency or (self.event_latency and kind == 'event')):
                        # the reply/event arrives before the next timer fires (the other order is the other choice)
                        self.eng.assume(new_now <= nxt._when)
                    self.now = new_now
                    if kind == 'reply':
                        sid, k, fut = self.pending.pop(i)
                        self.deliveries.append((sid, k, self.now))
                        if not fut.done():
                            fut.set_result(None)
                    else:
                        ev = self.events.pop(i)
                        self.deliveries.append(('event', self.now))
                        ev(self)
        super()._run_once()

    def park(self, sid, kind):
        fut = self.create_future()
        self.pending.append((sid, kind, fut))
        return fut

    def close(self):
        if self.leaked is None and not self.is_closed():
            try:
                self.leaked = [t.get_name() for t in asyncio.all_tasks(self) if not t.done()]
            except Exception:
                self.leaked = []
        super().close()


@contextlib.contextmanager
def rt_patched(loop):
    saved = scheduler.perf_counter
    saved_check = scheduler.rt_check
    scheduler.perf_counter = lambda: loop.now
    from loguru import logger
    warns = []
    hid = logger.add(lambda m: warns.append(str(m)), level='WARNING', format='{message}')

    def rt_check_recorder(rt_factor, rt_start, rt_strict, sim):
        # calls the real rt_check; only records which simulator a report belongs to (the message does not say)
        n = len(warns)
        try:
            return saved_check(rt_factor, rt_start, rt_strict, sim)
        finally:
            if len(warns) > n:
                loop.reported.append(sim.sid)
    scheduler.rt_check = rt_check_recorder
    try:
        yield warns
    finally:
        scheduler.perf_counter = saved
        scheduler.rt_check = saved_check
        logger.remove(hid)


def frac(s):
    """a rational constant: a numeral term in symbolic mode (so that all arithmetic stays inside the executor's
    proxies), a Fraction in concrete replay"""
    eng = E.current()
    if eng is not None and eng.mode == 'sym':
        import z3
        return E.SymReal(z3.RealVal(str(Fraction(s))))
    return Fraction(s)


def one_run(eng, cfg, strict, tag=''):
    """one real-time run; returns dict(outcome, exc, steps=[(sid, t, clock)], warns)"""
    f = frac(cfg['f'])
    res = frac(cfg.get('res', '1'))
    feff = f * res
    until = cfg.get('until', 3)
    n = cfg.get('n', 1)
    sims = ['A', 'B', 'C'][:n]
    types = {'A': cfg.get('typ', 'time-based'), 'B': cfg.get('typ_b', 'time-based'), 'C': cfg.get('typ_c', 'time-based')}
    steppers = cfg.get('steppers')       # None: every simulator schedules itself; else the listed ones only
    dmax = cfg.get('dmax', {})           # sid -> largest self-chosen step size (symbolic in 1..dmax)
    loop = VLoop(eng, late=cfg.get('late', False), latency=cfg.get('latency', False), maxlate=feff / 4)
    loop._clock_resolution = frac(Fraction(1, 10**9))
    loop.event_latency = cfg.get('event_latency', False)
    log = []
    steps = []
    ev_log = []

    def hook(kind, sid, fn, payload):
        if kind == 'request' and fn == 'step' and loop.active:
            steps.append((sid, payload[0], loop.now))

    def behaviour(sim, what, k, time, arg, max_advance):
        if what == 'step':
            if cfg.get('self_steps', True) and (steppers is None or sim.sid in steppers):
                if sim.typ == 'time-based' or k < cfg.get('K', 3) - 1:
                    if sim.sid in dmax:
                        d = eng.int(f'{sim.sid}.d{k}', 1, dmax[sim.sid])
                    else:
                        d = 1 if not cfg.get('sym_steps') else eng.int(f'{sim.sid}.d{k}', 1, 2)
                    return time + d
            return None
        return {eid: {a: f'{sim.sid}#{k}.{a}' for a in attrs} for eid, attrs in arg.items()}
    CTX.clear()
    CTX.update(eng=eng, loop=loop, K=cfg.get('K', 4), until=until, ref=None, log=log, sync=set(cfg.get('sync', sims)),
               hook=hook, behaviour=behaviour, bounded_times=True)
    out = {'outcome': None, 'exc': None, 'steps': steps, 'warns': None, 'ev': ev_log, 'loop': loop}
    with sysrun.patched(), rt_patched(loop) as warns:
        out['warns'] = warns
        w = mosaik.World({'S': {'python': 'vk.sysrun:SymSim'}}, skip_greetings=True, asyncio_loop=loop, time_resolution=res,
                         cache=cfg.get('cache', True))
        try:
            ents = {}
            typ = types['A']
            if cfg.get('grouped'):
                with w.group():
                    for s in sims:
                        ents[s] = w.start('S', sim_id=s, typ=types[s]).M()
            else:
                for s in sims:
                    ents[s] = w.start('S', sim_id=s, typ=types[s]).M()
            from vk import topo as T
            for a, b in zip(sims, sims[1:]) if not cfg.get('unconnected') else ():     # a chain A -> B -> C
                o, i = T.default_kinds(types[a], types[b])
                w.connect(ents[a], ents[b], (T.out_attr(types[a], o), T.in_attr(types[b], i)))
            if typ == 'event-based':
                w.set_initial_event('A', 0)
            # external events
            for ei in range(cfg.get('events', 0)):
                et = eng.int(f'event_time{ei}', 0)
                target = cfg.get('target', 'A')

                def inject(lp, et=et, target=target):
                    now_sim = None
                    ev_log.append({'t': et, 'clock': lp.now, 'progress': w.sims[target].progress.time.time, 'until': until,
                                   'last_step': w.sims[target].last_step.time})
                    task = lp.create_task(w.sims[target]._proxy.sim.mosaik.set_event(et))
                    ev_log[-1]['task'] = task
                loop.events.append(inject)
            loop.active = True
            try:
                kw = {'rt_factor': f, 'rt_strict': strict} if not cfg.get('non_rt') else {}
                w.run(until=until, print_progress=False, **kw)
                out['outcome'] = 'done'
            except Deadlock:
                out['outcome'] = 'deadlock'
            except Livelock:
                out['outcome'] = 'livelock'
            except (E.Unsupported, E.HarnessError, E.ReplayDiverged):
                raise
            except Exception as e:  # noqa
                out['outcome'] = 'exc:' + type(e).__name__
                out['exc'] = e
                out['exc_info'] = sysrun.classify_exception(e)
            finally:
                loop.active = False
        finally:
            if not loop.is_closed():
                try:
                    loop.close()
                except Exception:
                    pass
    return out


def pacing(cfg):
    """(a) pacing bound, (b) completion, (c) never 'too slow' with zero latency and exact timers, (d) rt_strict"""
    def h(eng):
        f = frac(cfg['f']) * frac(cfg.get('res', '1'))
        fp = [cfg['f'], cfg.get('res', '1'), cfg.get('grouped', False), cfg.get('n', 1)] + (['unconnected'] if cfg.get('unconnected') else [])
        desc = f"rt_factor={cfg['f']} time_resolution={cfg.get('res', '1')} grouped={cfg.get('grouped', False)} n={cfg.get('n', 1)} " \
               f"{'unconnected simulators ' + str(cfg.get('typ_b', '')) + ' ' if cfg.get('unconnected') else ''}" \
               f"late={cfg.get('late', False)} latency={cfg.get('latency', False)} sync={cfg.get('sync')}"
        r = one_run(eng, cfg, strict=False)
        exact = not cfg.get('late') and not cfg.get('latency')
        if r['outcome'] != 'done':
            x = r.get('exc_info', {})
            eng.alarm('C17.run', f"real-time run did not complete: {r['outcome']} {x.get('exc_msg', '')} at {x.get('where')}: {desc}",
                      {'fp': fp + [r['outcome'], x.get('where')], 'exc': x, 'grouped': cfg.get('grouped', False)})
            return (r['outcome'], {'nontrivial': True})
        for (sid, t, clock) in r['steps']:
            eng.check(clock >= f * (t - 1), 'C17.pacing', lambda: f'{sid} began step {t} at clock {clock}, earlier than rt_factor*time_resolution*(t-1) = {f * (t - 1)}: {desc}', {'fp': fp})
        slow = [m for m in r['warns'] if 'too slow' in m]
        if exact:
            rep_sims = sorted(set(r['loop'].reported))
            dependent = set(['B', 'C'][:cfg.get('n', 1) - 1]) if not cfg.get('unconnected') else set()
            eng.check(not slow, 'C17.tooslow', f'simulators answer instantly and timers are exact, but {len(slow)} too-slow report(s) for {rep_sims}: {slow[:1]}: {desc}',
                      {'fp': fp + [rep_sims], 'reported': rep_sims, 'only_dependent': bool(rep_sims) and set(rep_sims) <= dependent})
        # (d) the same run with rt_strict=True: RuntimeError iff a report was logged, and nothing else changes
        if cfg.get('check_strict', True):
            r2 = one_run(eng, cfg, strict=True)
            if slow:
                eng.check(r2['outcome'] == 'exc:RuntimeError', 'C17.strict', f"a too-slow report was logged but rt_strict=True ended with {r2['outcome']}: {desc}", {'fp': fp})
                pre = [(s, t) for s, t, c in r2['steps']]
                full = [(s, t) for s, t, c in r['steps']]
                if cfg.get('unconnected'):
                    # unconnected simulators are not ordered relative to each other: compare each simulator's own sequence
                    ok_pre = all([t for s, t in pre if s == x] == [t for s, t in full if s == x][:len([1 for s, t in pre if s == x])] for x in 'ABC')
                else:
                    ok_pre = pre == full[:len(pre)]
                eng.check(ok_pre, 'C17.strict', f'rt_strict changed the steps before the first report: {pre} vs {full}: {desc}', {'fp': fp})
            else:
                eng.check(r2['outcome'] == 'done', 'C17.strict', f"no too-slow report but rt_strict=True ended with {r2['outcome']} {r2.get('exc')}: {desc}", {'fp': fp})
                if cfg.get('unconnected'):
                    same = all([t for s, t, c in r['steps'] if s == x] == [t for s, t, c in r2['steps'] if s == x] for x in 'ABC')
                else:
                    same = len(r2['steps']) == len(r['steps']) and all(a[0] == b[0] and a[1] == b[1] for a, b in zip(r['steps'], r2['steps']))
                eng.check(same, 'C17.strict', f'rt_strict changed the schedule: {desc}', {'fp': fp})
        return ('done', {'nontrivial': True, 'steps': [(s, str(t), str(c)) for s, t, c in r['steps']][:12], 'slow': len(slow)})
    return h


def judge_event(eng, cfg, r, ev, f, fp, desc, single):
    """obligations for one injected external event; returns True if it was a specified (future) event, False if not, 'stop' to end the path"""
    if True:
        et = ev['t']
        task = ev.get('task')
        texc = None
        if task is not None and task.done() and not task.cancelled():
            texc = task.exception()
        if cfg.get('non_rt'):
            eng.check(isinstance(texc, SimulationError), 'C17.event_nonrt', f'set_event outside real-time mode did not fail with SimulationError (got {texc!r}): {desc}', {'fp': fp})
            return True
        stepped = [(s, t, c) for s, t, c in r['steps'] if s == cfg.get('target', 'A')]
        # only events that lie in the future of the simulator at the injection instant are specified
        import math
        tick = math.ceil(ev['clock'] / f)     # the tick real time is in at the injection instant
        is_future = bool(et > ev['last_step']) and bool(et >= tick)
        if not is_future:
            return False
        if bool(et < ev['until']):
            if r['outcome'] != 'done':
                x = r.get('exc_info', {})
                eng.alarm('C17.event_run', f"run with an external event at {et} did not complete: {r['outcome']} {x.get('exc_msg', '')} at {x.get('where')}: {desc}",
                          {'fp': fp + [r['outcome']], 'exc': x, 'grouped': cfg.get('grouped', False)})
                return 'stop'
            eng.check(texc is None, 'C17.event', f'set_event({et}) raised {texc!r}: {desc}', {'fp': fp})
            hit = [1 for s, t, c in stepped if bool(t == et)]
            eng.check(bool(hit), 'C17.event', lambda: f'set_event({et}) at clock {ev["clock"]} (progress {ev["progress"]}) caused no step at {et}; steps {[(str(t)) for s, t, c in stepped]}: {desc}', {'fp': fp})
            if single and not cfg.get('latency') and not cfg.get('late'):
                # replies are instant and timers exact (only the instant of the external event is arbitrary): the event step
                # must not be reported too slow, i.e. it is taken when the event arrives or at the next poll, never a period late
                slow = [m for m in r['warns'] if 'too slow' in m]
                eng.check(not slow, 'C17.event_tooslow', lambda: f'set_event({et}) at clock {ev["clock"]}: instantly answering simulator reported too slow: {slow[:1]}; steps {[(str(t), str(c)) for s, t, c in stepped]}: {desc}',
                          {'fp': fp + ['tooslow', sorted(set(r['loop'].reported))], 'reported': sorted(set(r['loop'].reported)),
                           'only_dependent': bool(r['loop'].reported) and set(r['loop'].reported) <= set(['B', 'C'][:cfg.get('n', 1) - 1])})
        else:
            ignored = [m for m in r['warns'] if 'will be ignored' in m]
            eng.check(bool(ignored), 'C17.event_late', f'set_event({et}) with until={ev["until"]} gave no warning: {desc}', {'fp': fp})
            eng.check(r['outcome'] == 'done', 'C17.event_late', f"event at/after until made the run end with {r['outcome']}: {desc}", {'fp': fp})
            hit = [1 for s, t, c in stepped if bool(t == et)]
            eng.check(not hit, 'C17.event_late', f'event at/after until caused a step: {desc}', {'fp': fp})
        return True


def events(cfg):
    """(e) set_event: a future t < until causes a step at t; t >= until is ignored with a warning; outside real-time mode it is an error"""
    def h(eng):
        f = frac(cfg['f']) * frac(cfg.get('res', '1'))
        fp = ['events', cfg['f'], cfg.get('grouped', False), cfg.get('non_rt', False)]
        desc = f"rt_factor={cfg['f']} grouped={cfg.get('grouped', False)} non_rt={cfg.get('non_rt', False)} typ={cfg.get('typ')}"
        r = one_run(eng, cfg, strict=False)
        if not r['ev']:
            return ('noevent:' + str(r['outcome']), {'nontrivial': False})
        nontrivial = False
        single = len(r['ev']) == 1 and cfg.get('events', 1) == 1
        if not single and not cfg.get('non_rt'):
            # several events: the statement specifies future events only; a run into which an event for the simulator's past (or for a
            # tick that has already begun) was injected is outside the claim as a whole
            import math
            for ev in r['ev']:
                if not (bool(ev['t'] > ev['last_step']) and bool(ev['t'] >= math.ceil(ev['clock'] / f))):
                    return ('pastevent:' + str(r['outcome']), {'nontrivial': False})
        for ev in r['ev']:
            res = judge_event(eng, cfg, r, ev, f, fp, desc, single)
            if res == 'stop':
                return (r['outcome'], {'nontrivial': True})
            nontrivial = nontrivial or res
        if not nontrivial:
            return ('pastevent:' + str(r['outcome']), {'nontrivial': False})
        return (r['outcome'], {'nontrivial': True})
    return h


def fp_lemma(eb, sb, c, timeout_ms=60000):
    """Side lemma (IEEE arithmetic; the system runs use a real-valued clock): advance_progress computes the real-time progress
    as ceil(rt_passed / rt_factor) in floating point.  For the pacing bound it must not exceed the exact value: for finite
    a >= 0, f > 0 and an integer c, RNE(a / f) > c (so the progress is at least c + 1) implies a > f * c exactly.  Decided by z3
    as a pure QF_FP query in the format (eb, sb); the exact product f * c is formed in a wider format (eb + 4, 2 sb + 8) where it
    is exact for c < 2^8.  The verdict is a side result: 'unsat' = the lemma holds for that format and c."""
    def h(eng):
        import z3
        sort = z3.FPSort(eb, sb)
        wide = z3.FPSort(eb + 4, 2 * sb + 8)
        a, f = z3.FP('a', sort), z3.FP('f', sort)
        sv = z3.Solver()
        sv.set('timeout', timeout_ms)
        sv.add(z3.Not(z3.fpIsNaN(a)), z3.Not(z3.fpIsInf(a)), z3.Not(z3.fpIsNaN(f)), z3.Not(z3.fpIsInf(f)))
        sv.add(z3.fpGEQ(a, z3.FPVal(0.0, sort)), z3.fpGT(f, z3.FPVal(0.0, sort)))
        sv.add(z3.fpGT(z3.fpDiv(z3.RNE(), a, f), z3.FPVal(float(c), sort)))
        aw, fw = z3.fpToFP(z3.RNE(), a, wide), z3.fpToFP(z3.RNE(), f, wide)
        sv.add(z3.fpLEQ(aw, z3.fpMul(z3.RNE(), fw, z3.FPVal(float(c), wide))))
        import time as _t
        t0 = _t.perf_counter()
        r = str(sv.check())
        eng.stats.queries += 1
        eng.stats.solver_s += _t.perf_counter() - t0
        if r == 'unsat':
            eng.stats.unsat += 1
        elif r == 'sat':
            eng.stats.sat += 1
            m = sv.model()
            return ('fp-lemma-sat', {'nontrivial': False, 'model': str(m)})
        return ('fp-lemma-' + r, {'nontrivial': False})
    return h


def jobs(tier):
    q = tier == 'quick'
    out = []
    fs = ['1/2', '1', '3']
    for f in fs:
        for res in ('1', '1/2'):
            for grouped in (False, True):
                for n in (1, 2):
                    base = {'f': f, 'res': res, 'grouped': grouped, 'n': n, 'until': 3, 'K': 4}
                    # exact timers, zero latency (synchronous simulators)
                    out.append(('pacing', dict(base)))
                    if res == '1':
                        # late timers
                        out.append(('pacing', dict(base, late=True)))
                        # asynchronous simulators with symbolic reply latencies
                        if n == 1 or not q:
                            out.append(('pacing', dict(base, latency=True, sync=[])))
                        if n == 2:
                            out.append(('pacing', dict(base, sync=[], check_strict=False)))   # asynchronous, zero latency: all orders
    # a consumer that steps more rarely than its producer (idle for several ticks while the producer lazily waits for it)
    for grouped in (False,) if q else (False, True):
        out.append(('pacing', {'f': '1', 'res': '1', 'grouped': grouped, 'n': 2, 'until': 5, 'K': 6, 'dmax': {'B': 3}, 'check_strict': False}))
        if not q:
            out.append(('pacing', {'f': '1/2', 'res': '1', 'grouped': grouped, 'n': 2, 'until': 5, 'K': 6, 'dmax': {'B': 3}, 'check_strict': False}))
    # simulators that are not connected at all (each runner task may complete whole steps before the others have started)
    for typ_b in ('time-based', 'event-based'):
        for sync in (['A', 'B'], [], ['A'], ['B']):
            for grouped in (False,) if q else (False, True):
                cfgu = {'f': '1', 'res': '1', 'grouped': grouped, 'n': 2, 'until': 3, 'K': 4, 'typ_b': typ_b, 'unconnected': True, 'sync': sync,
                        'check_strict': sync == ['A', 'B']}
                out.append(('pacing', dict(cfgu)))
                if not q:
                    out.append(('pacing', dict(cfgu, n=3, typ_c='hybrid', sync=sync + ['C'])))
                    out.append(('pacing', dict(cfgu, late=True)))
    for typ in ('event-based', 'hybrid') + (() if q else ('time-based',)):
        for grouped in (False, True):
            cfgb = {'f': '1', 'res': '1', 'grouped': grouped, 'n': 1, 'until': 4, 'K': 6, 'typ': typ, 'events': 1, 'self_steps': typ != 'event-based',
                    'sync': []}
            out.append(('events', dict(cfgb)))
            out.append(('events', dict(cfgb, event_latency=True)))
            out.append(('events', dict(cfgb, latency=True)))
            if not q:
                out.append(('events', dict(cfgb, f='1/2', latency=True)))
    out.append(('events', {'f': '1', 'res': '1', 'grouped': False, 'n': 1, 'until': 3, 'K': 5, 'typ': 'hybrid', 'events': 1, 'non_rt': True, 'sync': []}))
    # several external events pending at once, announced in any order of their times
    for typ, nev in (('event-based', 3), ('hybrid', 2)) + (() if q else (('time-based', 2),)):
        c = {'f': '1', 'res': '1', 'grouped': False, 'n': 1, 'until': 4, 'K': 6, 'typ': typ, 'events': nev, 'self_steps': typ != 'event-based', 'sync': ['A']}
        if typ != 'event-based':
            c['dmax'] = {'A': 3}      # a self-scheduled step up to 3 ticks ahead is pending while the events arrive
        out.append(('events', c))
    # the event goes to a simulator below a sparsely stepping triggering ancestor (its own step sizes symbolic in 1..3)
    for typ_b in ('event-based', 'hybrid'):
        for grouped in (False,) if q else (False, True):
            cfgb = {'f': '1', 'res': '1', 'grouped': grouped, 'n': 2, 'until': 4, 'K': 4, 'typ': 'hybrid', 'typ_b': typ_b, 'events': 1, 'target': 'B',
                    'steppers': ['A'], 'dmax': {'A': 3}, 'sync': ['A', 'B']}
            out.append(('events', dict(cfgb)))
            if not q:
                out.append(('events', dict(cfgb, event_latency=True)))
                out.append(('events', dict(cfgb, steppers=['A', 'B'])))
    # a chain root -> relay -> self-stepping simulator: the last one has no direct wall-clock paced input
    for grouped in (False,) if q else (False, True):
        cfgc = {'f': '1', 'res': '1', 'grouped': grouped, 'n': 3, 'until': 5, 'K': 5, 'typ': 'hybrid', 'typ_b': 'event-based', 'typ_c': 'hybrid',
                'steppers': ['A', 'C'], 'dmax': {'A': 4}, 'check_strict': False}
        out.append(('pacing', dict(cfgc)))
        if not q:
            out.append(('pacing', dict(cfgc, late=True)))
            out.append(('pacing', dict(cfgc, f='1/2')))
    js = []
    # IEEE side lemma of the progress computation (see fp_lemma): single precision for c = 1..6, double precision for c = 1 (2, 4 thorough)
    for (eb, sb, name), cs in ((((8, 24, 'single'), (1, 2, 3, 4, 5, 6))), ((11, 53, 'double'), (1,) if q else (1, 2, 4))):
        for c in cs:
            js.append({'id': f'fp_lemma|{name}|c={c}', 'harness': 'vk.kernels.c17:fp_lemma', 'params': {'eb': eb, 'sb': sb, 'c': c}, 'budget_s': 200,
                       'xsolver_cap': 0})
    for kind, cfg in out:
        jid = kind + '|' + '|'.join(f'{k}={cfg[k]}' for k in sorted(cfg))
        j = {'id': jid.replace(' ', ''), 'harness': f'vk.kernels.c17:{kind}', 'params': {'cfg': cfg}, 'budget_s': 300}
        if kind == 'events' and (cfg.get('events', 1) > 1 or (cfg.get('latency') and cfg.get('typ') == 'hybrid')):
            j['split_depth'] = 12      # the long jobs are split by decision prefix over the workers
        js.append(j)
    return js

"""development driver: python -m vk.dev <topology> key=value ..."""
import json
import sys
import time
import collections

from vk import engine as E, topo as T, sysrun, common


def main(argv):
    name = argv[0]
    cfg = {'until': 3, 'K': 2, 'cache': True, 'lazy': True, 'D': 0, 'sync': [], 'salt': 0}
    budget = 120
    for a in argv[1:]:
        k, v = a.split('=')
        if k == 'budget':
            budget = float(v)
        elif k == 'sync':
            cfg['sync'] = [x for x in v.split(',') if x]
        elif k == 'rules':
            cfg['rules'] = v.split(',')
        elif k == 'until' and v == 'sym':
            cfg['until'] = 'sym'
        else:
            cfg[k] = json.loads(v)
    topo = T.by_name(name)
    job = {'id': name, 'harness': 'vk.sysrun:system', 'params': {'topo': topo, 'cfg': cfg}, 'budget_s': budget, 'n_samples': 1}
    common._init_worker()
    sys.stdout = sys.__stdout__
    t0 = time.time()
    r = common.run_job(job)
    if r['error']:
        print('ERROR', r['error'])
        return
    print(name, cfg, 'complete', r['complete'], 'wall', r['wall_s'])
    print('  outcomes', r['outcomes'])
    print('  stats', {k: r['stats'][k] for k in ('paths', 'cuts', 'decisions', 'queries', 'solver_s', 'model_hits')})
    for v in r['violations']:
        print('  VIOL', v['rule'], 'x', v['count'], 'reproduced', v['reproduced'], '|', v['msg'][:300])
        if not v['reproduced']:
            print('      detail', str(v['replay_detail'])[:1500])
        print('      script', v['script'])
    if '-v' in argv or True:
        print('  sample', r['samples'][0]['value'][:600] if r['samples'] else None)


if __name__ == '__main__':
    main(sys.argv[1:])

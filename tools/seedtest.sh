#!/bin/bash
# usage: seedtest.sh <seed dir with patch.diff/demo.py> <wt> <check ids...>
# 1. confirm in the scratch worktree: suite passes with the change, demo FAILs with / PASSes without
# 2. apply to /repo, run the given checks (quick), revert
SD="$1"; WT="$2"; shift; shift
set -u
echo "== confirm in $WT"
( cd "$WT" && git stash -q 2>/dev/null; git -C "$WT" status --short | head -2
  cd "$SD" && PYTHONPATH="$WT" timeout 300 /venv/bin/python demo.py >/tmp/seed_demo_clean.out 2>&1; echo "demo without change: exit=$? $(tail -1 /tmp/seed_demo_clean.out | cut -c1-150)"
  cd "$WT" && git apply "$SD/patch.diff" && git -C "$WT" status --short | head -3
  cd "$SD" && PYTHONPATH="$WT" timeout 300 /venv/bin/python demo.py >/tmp/seed_demo_mut.out 2>&1; echo "demo with change: exit=$? $(tail -1 /tmp/seed_demo_mut.out | cut -c1-200)"
  cd "$WT" && PYTHONPATH="$WT" /venv/bin/python -m pytest -q -p no:cacheprovider --timeout=900 -n 6 2>&1 | tail -1 )
echo "== checks on /repo with the change"
git -C /repo status --short | grep -q . && { echo "/repo not clean"; exit 9; }
git -C /repo apply "$SD/patch.diff" || { echo "patch does not apply to /repo"; exit 9; }
for c in "$@"; do
  /usr/bin/time -f "%es" /verif/run_check.sh "$c" quick > /tmp/seed_check_$c.out 2>&1; rc=$?
  echo "check $c: exit=$rc  $(grep -c '^VIOLATION' /tmp/seed_check_$c.out) violation line(s); $(grep -m1 'rule=' /tmp/seed_check_$c.out | cut -c1-260)"
  grep "HARNESS-ERROR" /tmp/seed_check_$c.out | head -2 | cut -c1-300
done
git -C /repo checkout -- .
git -C /repo status --short | head -2

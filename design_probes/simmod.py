import mosaik_api_v3
META = {'api_version': '3.0', 'type': 'event-based', 'models': {'M': {'public': True, 'params': [], 'attrs': ['x_in', 'x_out']}}}
class S(mosaik_api_v3.Simulator):
    def __init__(self):
        import copy
        super().__init__(copy.deepcopy(META))
        self.log = []
    def init(self, sid, time_resolution, typ='event-based', script=None):
        self.sid = sid; self.meta['type'] = typ; self.script = script or {}
        return self.meta
    def create(self, num, model):
        return [{'eid': 'e', 'type': model}]
    def step(self, time, inputs, max_advance):
        self.log.append(time)
        self.t = time
        return self.script.get('next', {}).get(len(self.log)-1)
    def get_data(self, outputs):
        return {'e': {'x_out': self.t}}

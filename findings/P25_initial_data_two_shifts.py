import mosaik, mosaik_api_v3
class S(mosaik_api_v3.Simulator):
    def __init__(self):
        super().__init__({'api_version':'3.0','type':'time-based','models':{'M':{'public':True,'params':[],'attrs':['a','b','inp']}}})
    def init(self, sid, time_resolution=1.0, **p):
        self.sid=sid; return self.meta
    def create(self, num, model, **p):
        return [{'eid':'e','type':model}]
    def step(self, time, inputs, max_advance):
        self.time=time
        print(self.sid, time, inputs)
        return time+1
    def get_data(self, outputs):
        return {'e':{a: f'{a}{self.time}' for a in outputs.get('e',[])}}
w = mosaik.World({'S':{'python':'__main__:S'}}, skip_greetings=True)
s = w.start('S', sim_id='S').M(); x = w.start('S', sim_id='X').M(); y = w.start('S', sim_id='Y').M()
w.connect(s, x, ('a','inp'), time_shifted=1, initial_data={'a':'ia'})
w.connect(s, y, ('b','inp'), time_shifted=2, initial_data={'b':'ib'})
w.run(until=4, print_progress=False)

"""C12 Attribute classification from model descriptions."""
from vk import common
from vk.kernels import c12 as K


def run(rep, tier, seed, args):
    jobs = common.with_xsolver(K.jobs(tier), cap=1000 if tier == "quick" else 100000)
    n = 4 if tier == 'quick' else 8
    rep.rule = ('one case = one path of the real parse_attrs / parse_set_triple / OutSet operator for one enumerated shape (type x any_inputs x '
                'presence pattern of the five keys; operator x finite/co-finite operands) with the CONTENTS of every present set symbolic '
                f'(all subsets of a universe of {n} names at once); non-trivial = the path reached an obligation; paths are distinct (disjoint path conditions)')
    rep.bounds = {'universe': f'{n} attribute names plus one generic foreign name', 'shapes': 'all 3 x 2 x 32 descriptions; all operator/operand-kind combinations',
                  'outside': 'larger universes; attribute lists with duplicates (lists are modelled as sets)'}
    rep.assumptions = ['the name frozenset in mosaik.scenario and mosaik.in_or_out_set is bound to a bit-vector set model (SymSet) with the frozenset protocol (| & - == != in; NotImplemented for foreign operands so reflected OutSet methods run as in CPython)',
                       'error message formatting of symbolic sets returns a placeholder',
                       'oracle = the docstring rule of parse_attrs written as z3 terms over (cofinite flag, bit-vector) pairs',
                       'concrete replay runs the unpatched code on real frozensets']
    rep.add_jobs(common.run_jobs(jobs))

import asyncio, sys, time, copy, warnings
import z3, symex2
from symex2 import Engine, SymInt, SymBool, Violation, PathCut
import mosaik, mosaik_api_v3
from mosaik import simmanager, scheduler
from mosaik.proxies import LocalProxy
from loguru import logger
logger.remove(); warnings.simplefilter('ignore')

class Deadlock(Exception): pass
CTX = {}

class OracleLoop(asyncio.SelectorEventLoop):
    def __init__(self, eng, D=0):
        super().__init__(); self.eng = eng; self.pending = []; self.log = []; self.active = False; self.D = D; self.idle_iters = 0
    def _run_once(self):
        if self.active and not self._stopping:
            live_timers = [h for h in self._scheduled if not h._cancelled]
            if not self._ready and not live_timers:
                if not self.pending: raise Deadlock()
                i = self.eng.choose(len(self.pending))
                self._deliver(i)
            elif self.D > 0 and self.pending and self._ready:
                i = self.eng.choose(len(self.pending) + 1)
                if i > 0:
                    self.D -= 1; self._deliver(i - 1)
        super()._run_once()
    def _deliver(self, i):
        sid, kind, fut = self.pending.pop(i); self.log.append(('deliver', sid, kind)); fut.set_result(None)
    def wait(self, sid, kind):
        fut = self.create_future(); self.pending.append((sid, kind, fut)); return fut

class OracleProxy(LocalProxy):
    async def send(self, request):
        r = await super().send(request)
        loop = CTX['loop']
        if loop.active and request[0] in ('step', 'get_data', 'setup_done'):
            await loop.wait(self.sim.sid, request[0])
        return r

async def my_inproc(mosaik_config, sim_name, sim_config, mosaik_remote):
    base = await simmanager.start_inproc(mosaik_config, sim_name, sim_config, mosaik_remote)
    return OracleProxy(base.sim, mosaik_remote)
simmanager.StarterCollection()['python'] = my_inproc
scheduler.get_avg_progress = lambda sims, until: 0
scheduler.get_progress = lambda sims, until: 0

META = {'api_version': '3.0', 'type': 'event-based', 'models': {'M': {'public': True, 'params': [], 'attrs': ['i', 'o']}}}
class Sim(mosaik_api_v3.Simulator):
    def __init__(self): super().__init__(copy.deepcopy(META))
    def init(self, sid, time_resolution, typ='event-based'):
        self.sid = sid; self.meta['type'] = typ; self.typ = typ; self.n = 0
        if typ == 'hybrid': self.meta['models']['M']['trigger'] = ['i']
        return self.meta
    def create(self, num, model): return [{'eid': 'e', 'type': model}]
    def step(self, time, inputs, max_advance):
        eng = CTX['eng']; loop = CTX['loop']
        loop.log.append(('step', self.sid, time, max_advance))
        self.t = time; k = self.n; self.n += 1
        if k >= CTX['K']: raise PathCut()
        if self.typ == 'time-based':
            return time + eng.fresh_int(f'{self.sid}.d{k}', 1)
        if eng.fresh_bool(f'{self.sid}.self{k}'):
            return time + eng.fresh_int(f'{self.sid}.d{k}', 1)
        return None
    def get_data(self, outputs):
        eng = CTX['eng']; k = self.n
        if self.typ == 'time-based': return {'e': {'o': k}}
        if eng.fresh_bool(f'{self.sid}.out{k}'):
            return {'e': {'o': k}}
        return {}

def scenario(eng):
    loop = OracleLoop(eng, D=DD)
    CTX.update(eng=eng, loop=loop, K=KK)
    until = eng.fresh_int('until', 1) if SYMUNTIL else UNTIL
    w = mosaik.World({'S': {'python': '__main__:Sim'}}, skip_greetings=True, asyncio_loop=loop, cache=CACHE, debug=True)
    try:
        ents = {}
        for sid, typ in SIMS: ents[sid] = w.start('S', sim_id=sid, typ=typ).M()
        for s, d, kw in CONNS: w.connect(ents[s], ents[d], ('o', 'i'), **kw)
        for sid, typ in SIMS:
            if typ == 'event-based' and sid in INIT: w.set_initial_event(sid)
        loop.active = True
        try:
            w.run(until=until, print_progress=False)
            return ('done',)
        except Deadlock: return ('deadlock', list(loop.log))
        except AssertionError as e: return ('assert', str(e), list(loop.log))
        except mosaik.exceptions.SimulationError as e: return ('simerr', str(e), list(loop.log))
        finally: loop.active = False
    finally:
        if not loop.is_closed(): loop.close()

TOPOS = {
 'chain3ev': ([('A','event-based'),('B','event-based'),('C','event-based')], [('A','B',{}),('B','C',{})], {'A'}),
 'tb2': ([('A','time-based'),('B','time-based')], [('A','B',{})], set()),
 'tbloop': ([('A','time-based'),('B','time-based')], [('A','B',{}),('B','A',dict(time_shifted=True, initial_data={'o': 0}))], set()),
 'hyb3': ([('A','hybrid'),('B','hybrid'),('C','time-based')], [('A','B',{}),('C','B',{})], set()),
 'hyb2': ([('A','hybrid'),('B','hybrid')], [('A','B',{})], set()),
}
if __name__ == '__main__':
    name = sys.argv[1]; SYMUNTIL = sys.argv[2] == 'sym'; UNTIL = 0 if SYMUNTIL else int(sys.argv[2]); KK = int(sys.argv[3]); CACHE = sys.argv[4] == '1'; DD = int(sys.argv[5]); budget = float(sys.argv[6])
    SIMS, CONNS, INIT = TOPOS[name]
    sys.stderr = open('/dev/null', 'w')
    eng = Engine(); t0 = time.time()
    res, complete = eng.explore(scenario, budget_s=budget)
    dt = time.time() - t0
    from collections import Counter
    print(sys.argv[1:], Counter(r[1][0] if r[0] == 'ok' else r[0] for r in res), 'complete', complete, 'paths', eng.paths, 'solver', eng.solver_calls, 'solver_s', round(eng.solver_s, 1), 'time', round(dt, 1), 'ms/path', round(1000 * dt / eng.paths, 1))
    for r in res:
        if r[0] == 'ok' and r[1][0] in ('assert', 'simerr', 'deadlock'):
            print('  first bad:', r[1]); break

"""C13 Runtime validation of simulator replies."""
from vk import common, sysrun
from vk.kernels import c13 as K


def run(rep, tier, seed, args):
    jobs = K.jobs(tier)
    rep.rule = ('one case = one path of the real World.run() in which one simulator (enumerated) sends one malformed reply at a step ordinal chosen by '
                'the solver (a symbolic index compared with the request counter), the malformed value itself symbolic (next step t+delta with delta <= 0 '
                'unbounded; output time t-eps, eps >= 1 unbounded) or drawn from {1.5, "3", [3], None}; non-trivial = the malformed reply was actually sent on the path')
    rep.bounds = {'simulators': '2 (thorough 3)', 'steps_per_simulator': 'K=3 (three-simulator topologies K=2)', 'until': 3, 'fault': 'exactly one malformed reply per run',
                  'outside': 'bool next-step values (not demanded to be rejected), several malformed replies, malformed data structures other than times'}
    rep.assumptions = list(sysrun.STUBS) + ['"identifies the simulator" is read as: the simulator id occurs in the exception text; "error" as any exception except an assert statement (which disappears under python -O)']
    rep.add_jobs(common.run_jobs(jobs))

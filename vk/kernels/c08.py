"""C08 kernel: order-consistent delay arithmetic on the real TieredInterval / TieredTime.

Tier values are unbounded symbolic integers >= 0; shapes (pre_length, cutoff, len)
are enumerated.  "Comparable" and "smaller" are defined semantically and
independently of the code by the action on times:

    LE(a, b)  :<=>  for all t >= 0 (componentwise):  t + a  <=lex  t + b

written quantifier-free by recursion over the tier index (DESIGN.md, C08).
"""
from __future__ import annotations

import itertools
import z3

from vk.engine import term, SymBool


def shapes(maxlen):
    for n in range(1, maxlen + 1):
        for p in range(1, maxlen + 1):
            for c in range(1, min(n, p) + 1):
                yield (p, c, n)


def _mk(eng, TI, name, shape):
    p, c, n = shape
    return TI(*[eng.int(f'{name}{i}', 0) for i in range(n)], cutoff=c, pre_length=p)


def _mkt(eng, TT, name, n):
    return TT(*[eng.int(f'{name}{i}', 0) for i in range(n)])


def _and(*xs):
    xs = [x for x in xs]
    return z3.And(*xs) if xs else z3.BoolVal(True)


def LE(a, b, i=0):
    """QF term for: forall t >= 0 . t + a <=lex t + b   (same pre_length and len)."""
    n = len(a.tiers)
    if i == n:
        return z3.BoolVal(True)
    x, y = term(a.tiers[i]), term(b.tiers[i])
    a_add, b_add = i < a.cutoff, i < b.cutoff
    rest = LE(a, b, i + 1)
    if a_add and not b_add:
        return z3.BoolVal(False)           # t_i + x exceeds the constant y for large t_i
    return z3.Or(x < y, z3.And(x == y, rest))  # both added / both fixed / fixed x vs t_i + y (worst case t_i = 0)


def mixed_equal(a, b):
    """Structural predicate of known finding P10: the two delays have different cutoffs and
    agree on every tier up to and including an index where one adds and the other fixes."""
    lo, hi = sorted((a.cutoff, b.cutoff))
    alts = []
    for i in range(lo, hi):
        alts.append(_and(*[term(a.tiers[j]) == term(b.tiers[j]) for j in range(i + 1)]))
    return z3.Or(*alts) if alts else z3.BoolVal(False)


def _lt(a, b):
    try:
        return bool(a < b)
    except AssertionError as e:
        if 'incomparable' in str(e):
            return None
        raise


def _imports():
    from mosaik.tiered_time import TieredInterval, TieredTime
    from mosaik.scenario import update_min
    return TieredInterval, TieredTime, update_min


def _split_check(eng, pred, cond, rule, msg, fp):
    """check `cond`, attributing failures to rule/mixed-equal when the structural predicate of
    the recorded finding holds and to the plain rule otherwise."""
    eng.check(z3.Implies(z3.Not(pred), term(cond)), rule, msg, {'fp': fp})
    eng.check(z3.Implies(pred, term(cond)), rule + '/mixed-equal', msg, {'fp': fp})


def pair(sa, sb):
    """O1 (trichotomy / agreement with the converse / strictness on comparable pairs),
    O3 (a<b True => never later), O6 (min / update_min pick a lower bound)."""
    sa, sb = tuple(sa), tuple(sb)

    def h(eng):
        TI, TT, update_min = _imports()
        a = _mk(eng, TI, 'a', sa)
        b = _mk(eng, TI, 'b', sb)
        fp = [sa, sb]
        le_ab, le_ba = LE(a, b), LE(b, a)
        comparable = z3.Or(le_ab, le_ba)
        mixed = mixed_equal(a, b)
        r = _lt(a, b)
        r2 = _lt(b, a)
        eq = bool(a == b)
        info = {'nontrivial': True, 'lt': r, 'gt': r2, 'eq': eq}
        desc = f'a={sa} b={sb} a<b={r} b<a={r2} a==b={eq}'
        # O3: for every pair, comparable or not
        if r is True:
            _split_check(eng, mixed, le_ab, 'C08.O3', 'a<b is True but t+a > t+b for some t; ' + desc, fp)
        if r2 is True:
            _split_check(eng, mixed, le_ba, 'C08.O3', 'b<a is True but t+b > t+a for some t; ' + desc, fp)
        # O1 on semantically comparable pairs
        if r is None or r2 is None:
            _split_check(eng, mixed, z3.Not(comparable), 'C08.O1',
                         'incomparable-assertion on a pointwise comparable pair; ' + desc, fp)
            return ('assert', info)
        n_true = int(r) + int(r2) + int(eq)
        _split_check(eng, mixed, z3.Implies(comparable, z3.BoolVal(n_true == 1)), 'C08.O1',
                     'not exactly one of <, =, > on a comparable pair; ' + desc, fp)
        strict_ab = z3.And(le_ab, z3.Not(le_ba))
        strict_ba = z3.And(le_ba, z3.Not(le_ab))
        _split_check(eng, mixed, z3.Implies(strict_ab, z3.BoolVal(r and not r2)), 'C08.O1',
                     'a strictly below b pointwise but not (a<b and not b<a); ' + desc, fp)
        _split_check(eng, mixed, z3.Implies(strict_ba, z3.BoolVal(r2 and not r)), 'C08.O1',
                     'b strictly below a pointwise but not (b<a and not a<b); ' + desc, fp)
        _split_check(eng, mixed, z3.Implies(z3.And(le_ab, le_ba), z3.BoolVal(eq and not r and not r2)), 'C08.O1',
                     'equal actions but not (a==b and neither <); ' + desc, fp)
        # derived operators agree with the converse
        g = bool(a > b)
        le = bool(a <= b)
        ge = bool(a >= b)
        _split_check(eng, mixed, z3.Implies(comparable, z3.BoolVal(g == r2 and le == (not r2) and ge == (not r))),
                     'C08.O1', f'derived >, <=, >= disagree with the converse (>:{g} <=:{le} >=:{ge}); ' + desc, fp)
        # O6: min / update_min
        m = min(a, b)
        _split_check(eng, mixed, z3.Implies(comparable, z3.And(LE(m, a), LE(m, b))), 'C08.O6',
                     'min(a,b) is not a lower bound of a comparable pair; ' + desc, fp)
        u = update_min(a, b)
        keep = a if u is None else u
        _split_check(eng, mixed, z3.Implies(comparable, z3.And(LE(keep, a), LE(keep, b))), 'C08.O6',
                     'update_min(a,b) keeps a value that is not a lower bound; ' + desc, fp)
        eng.check(u is None or u is b, 'C08.O6', 'update_min returned something else than None / b', {'fp': fp})
        eng.check(update_min(None, b) is b, 'C08.O6', 'update_min(None, b) is not b', {'fp': fp})
        return ('ok', info)
    return h


def triple(sa, sb, sc):
    """O2 transitivity of < (on triples the code can compare)."""
    sa, sb, sc = tuple(sa), tuple(sb), tuple(sc)

    def h(eng):
        TI, TT, _ = _imports()
        a = _mk(eng, TI, 'a', sa)
        b = _mk(eng, TI, 'b', sb)
        c = _mk(eng, TI, 'c', sc)
        fp = [sa, sb, sc]
        if _lt(a, b) is True and _lt(b, c) is True:
            r = _lt(a, c)
            mixed = z3.Or(mixed_equal(a, b), mixed_equal(b, c), mixed_equal(a, c))
            comparable = z3.And(z3.Or(LE(a, b), LE(b, a)), z3.Or(LE(b, c), LE(c, b)), z3.Or(LE(a, c), LE(c, a)))
            _split_check(eng, mixed, z3.Implies(comparable, z3.BoolVal(r is True)), 'C08.O2',
                         f'a<b and b<c but a<c is {r}; shapes {fp}', fp)
            return ('chain', {'nontrivial': True})
        return ('nochain', {'nontrivial': False})
    return h


def addtime(sd):
    """O4: adding a delay never moves time backwards on the tiers the delay keeps;
    O5b: (t + a) + b == t + (a + b) is in `assoc`."""
    sd = tuple(sd)

    def h(eng):
        TI, TT, _ = _imports()
        p, c, n = sd
        t = _mkt(eng, TT, 't', p)
        d = _mk(eng, TI, 'd', sd)
        r = t + d
        eng.check(len(r) == n, 'C08.O4', 'length of t+d is not len(d)', {'fp': [sd]})
        kept_r = r.tiers[:c]
        kept_t = t.tiers[:c]
        ok = bool(kept_r >= kept_t)  # tuple comparison, decided branch by branch
        eng.check(ok, 'C08.O4', f'(t+d) is earlier than t on the kept tiers; shape {sd}', {'fp': [sd]})
        if p == c == n:
            eng.check(bool(r >= t), 'C08.O4', f't+d < t inside one group; shape {sd}', {'fp': [sd]})
        # the fixed tiers are exactly the ext part of the delay
        eng.check(bool(r.tiers[c:] == d.tiers[c:]), 'C08.O4', 'fixed tiers of t+d are not the delay\'s', {'fp': [sd]})
        return ('ok', {'nontrivial': True})
    return h


def assoc(sa, sb, sc):
    """O5: (a+b)+c == a+(b+c) and (t+a)+b == t+(a+b) whenever the shapes compose."""
    sa, sb, sc = tuple(sa), tuple(sb), tuple(sc)

    def h(eng):
        TI, TT, _ = _imports()
        a = _mk(eng, TI, 'a', sa)
        b = _mk(eng, TI, 'b', sb)
        c = _mk(eng, TI, 'c', sc)
        fp = [sa, sb, sc]
        left = (a + b) + c
        right = a + (b + c)
        eng.check(bool(left == right), 'C08.O5', f'(a+b)+c != a+(b+c); shapes {fp}', {'fp': fp})
        t = _mkt(eng, TT, 't', sa[0])
        eng.check(bool((t + a) + b == t + (a + b)), 'C08.O5', f'(t+a)+b != t+(a+b); shapes {fp[:2]}', {'fp': fp})
        # the sum is an upper bound on the kept tiers: combining never subtracts
        s = a + b
        eng.check(s.pre_length == a.pre_length and len(s) == len(b) and s.cutoff == min(a.cutoff, b.cutoff),
                  'C08.O5', 'shape of a+b', {'fp': fp})
        return ('ok', {'nontrivial': True})
    return h


def le_oracle_validation(sa, sb, T=3, V=1):
    """Validate the quantifier-free LE recursion against the quantified definition expanded
    over a box: tiers of a, b in [0, V], t in [0, T]^p with T > V (so the witness of the
    'added vs fixed' case lies inside the box).  Not a statement about mosaik."""
    sa, sb = tuple(sa), tuple(sb)

    def h(eng):
        class D:  # plain record with the fields LE() reads
            def __init__(self, tiers, cutoff):
                self.tiers, self.cutoff = tiers, cutoff
        p, ca, n = sa
        _, cb, _ = sb
        a = D([eng.int(f'a{i}', 0, V) for i in range(n)], ca)
        b = D([eng.int(f'b{i}', 0, V) for i in range(n)], cb)

        def act(d, t):
            return [term(t[i]) + term(d.tiers[i]) if i < d.cutoff else term(d.tiers[i]) for i in range(n)]

        def lex_le(xs, ys, i=0):
            if i == len(xs):
                return z3.BoolVal(True)
            return z3.Or(xs[i] < ys[i], z3.And(xs[i] == ys[i], lex_le(xs, ys, i + 1)))
        conj = []
        for t in itertools.product(range(T + 1), repeat=p):
            conj.append(lex_le(act(a, t), act(b, t)))
        eng.check(LE(a, b) == z3.And(*conj), 'C08.selftest.LE', f'QF oracle differs from expanded definition {sa} {sb}')
        return ('ok', {'nontrivial': True})
    return h


def jobs(tier):
    maxlen = 3 if tier == 'quick' else 5
    S = list(shapes(maxlen))
    out = []
    for sa, sb in itertools.product(S, S):
        if sa[0] == sb[0] and sa[2] == sb[2]:
            out.append({'id': f'pair{sa}{sb}', 'harness': 'vk.kernels.c08:pair', 'params': {'sa': sa, 'sb': sb}})
    S3 = list(shapes(3 if tier == 'quick' else 4))
    for sa, sb, sc in itertools.product(S3, S3, S3):
        if sa[0] == sb[0] == sc[0] and sa[2] == sb[2] == sc[2]:
            out.append({'id': f'triple{sa}{sb}{sc}', 'harness': 'vk.kernels.c08:triple',
                        'params': {'sa': sa, 'sb': sb, 'sc': sc}})
    for sd in S:
        out.append({'id': f'addtime{sd}', 'harness': 'vk.kernels.c08:addtime', 'params': {'sd': sd}})
    SA = list(shapes(2 if tier == 'quick' else 4))
    for sa, sb, sc in itertools.product(SA, SA, SA):
        if sa[2] == sb[0] and sb[2] == sc[0]:
            out.append({'id': f'assoc{sa}{sb}{sc}', 'harness': 'vk.kernels.c08:assoc',
                        'params': {'sa': sa, 'sb': sb, 'sc': sc}})
    SV = list(shapes(3))
    for sa, sb in itertools.product(SV, SV):
        if sa[0] == sb[0] and sa[2] == sb[2]:
            out.append({'id': f'leval{sa}{sb}', 'harness': 'vk.kernels.c08:le_oracle_validation',
                        'params': {'sa': sa, 'sb': sb}})
    return out

import asyncio, sys, time, copy, warnings, contextlib
sys.path.insert(0, '/repo')
import z3, symex2
from symex2 import Engine, SymInt, SymBool, Violation, PathCut
import mosaik, mosaik_api_v3
from mosaik import simmanager, scheduler
from mosaik.proxies import LocalProxy
from loguru import logger
import ref
from ref import Ref, RWorld
logger.remove(); warnings.simplefilter('ignore')
class Deadlock(Exception): pass
CTX = {}
class OracleLoop(asyncio.SelectorEventLoop):
    def __init__(self, eng, D=0):
        super().__init__(); self.eng = eng; self.pending = []; self.log = []; self.active = False; self.D = D
    def _run_once(self):
        if self.active and not self._stopping:
            live = [h for h in self._scheduled if not h._cancelled]
            if not self._ready and not live:
                if not self.pending: raise Deadlock()
                self._deliver(self.eng.choose(len(self.pending)))
            elif self.D > 0 and self.pending and self._ready:
                i = self.eng.choose(len(self.pending) + 1)
                if i > 0: self.D -= 1; self._deliver(i - 1)
        super()._run_once()
    def _deliver(self, i):
        sid, kind, fut = self.pending.pop(i); self.log.append(('deliver', sid, kind)); fut.set_result(None)
    def wait(self, sid, kind):
        fut = self.create_future(); self.pending.append((sid, kind, fut)); return fut
class OProxy(LocalProxy):
    async def send(self, request):
        f, args, kw = request; R = ref.REF; loop = CTX['loop']
        sid = getattr(self, '_sid', None)
        if f == 'init': self._sid = sid = args[0]
        if f == 'step':
            loop.log.append(('step', sid, args[0], args[2]))
            R.on_step_begin(sid, args[0], copy.deepcopy(args[1]), args[2])
        r = await super().send(request)
        if loop.active and f in ('step', 'get_data') and sid not in SYNC:
            await loop.wait(sid, f)
        if f == 'init': R.on_meta(sid, r)
        if f == 'step': R.on_step_end(sid, r)
        if f == 'get_data': R.on_get_data_end(sid, r)
        return r
async def my_inproc(mosaik_config, sim_name, sim_config, mosaik_remote):
    base = await simmanager.start_inproc(mosaik_config, sim_name, sim_config, mosaik_remote)
    return OProxy(base.sim, mosaik_remote)
simmanager.StarterCollection()['python'] = my_inproc
scheduler.get_avg_progress = lambda sims, until: 0
scheduler.get_progress = lambda sims, until: 0
META = {'api_version': '3.0', 'type': 'event-based', 'models': {'M': {'public': True, 'params': [], 'attrs': ['i', 'o']}}}
class Sim(mosaik_api_v3.Simulator):
    def __init__(self): super().__init__(copy.deepcopy(META))
    def init(self, sid, time_resolution, typ='event-based'):
        self.sid = sid; self.meta['type'] = typ; self.typ = typ; self.n = 0
        if typ == 'hybrid': self.meta['models']['M']['trigger'] = ['i']; self.meta['models']['M']['non-persistent'] = ['o']
        return self.meta
    def create(self, num, model): return [{'eid': 'e', 'type': model}]
    def step(self, time, inputs, max_advance):
        eng = CTX['eng']; self.t = time; k = self.n; self.n += 1
        if k >= CTX['K']: raise PathCut()
        if self.typ == 'time-based': return time + eng.fresh_int(f'{self.sid}.d{k}', 1)
        if eng.fresh_bool(f'{self.sid}.self{k}'): return time + eng.fresh_int(f'{self.sid}.d{k}', 1)
        return None
    def get_data(self, outputs):
        eng = CTX['eng']; k = self.n
        if self.typ == 'time-based': return {'e': {'o': f'{self.sid}{k}'}}
        if eng.fresh_bool(f'{self.sid}.out{k}'): return {'e': {'o': f'{self.sid}{k}'}}
        return {}
def scenario(eng):
    loop = OracleLoop(eng, D=DD); CTX.update(eng=eng, loop=loop, K=KK)
    ref.REF = Ref()
    w = RWorld({'S': {'python': '__main__:Sim'}}, skip_greetings=True, asyncio_loop=loop, cache=CACHE)
    try:
        ents = {}
        def mk(sid, typ): ents[sid] = w.start('S', sim_id=sid, typ=typ).M()
        BUILD(w, mk, ents)
        loop.active = True
        try:
            w.run(until=UNTIL, print_progress=False, lazy_stepping=LAZY)
            out = ('done',)
        except Deadlock: out = ('deadlock',)
        except AssertionError as e: out = ('assert', str(e)[:60])
        except mosaik.exceptions.SimulationError as e: out = ('simerr', str(e)[:60])
        finally: loop.active = False
        return out + (tuple(a[0] for a in ref.REF.alarms), ref.REF.alarms[:2], list(loop.log))
    finally:
        if not loop.is_closed(): loop.close()
def b_tb2(w, mk, e): mk('A','time-based'); mk('B','time-based'); w.connect(e['A'], e['B'], ('o','i'))
def b_tbshift(w, mk, e): mk('A','time-based'); mk('B','time-based'); w.connect(e['A'], e['B'], ('o','i'), time_shifted=True, initial_data={'o':'init'})
def b_tbloop(w, mk, e): mk('A','time-based'); mk('B','time-based'); w.connect(e['A'], e['B'], ('o','i')); w.connect(e['B'], e['A'], ('o','i'), time_shifted=True, initial_data={'o':'init'})
def b_hyb2(w, mk, e): mk('A','hybrid'); mk('B','hybrid'); w.connect(e['A'], e['B'], ('o','i'))
def b_weak2(w, mk, e):
    with w.group(): mk('A','hybrid'); mk('B','hybrid')
    w.connect(e['A'], e['B'], ('o','i')); w.connect(e['B'], e['A'], ('o','i'), weak=True)
def b_weakonly(w, mk, e):
    with w.group(): mk('A','hybrid'); mk('B','hybrid')
    w.connect(e['A'], e['B'], ('o','i'), weak=True)
def b_weaktb(w, mk, e):
    with w.group(): mk('A','time-based'); mk('B','time-based')
    w.connect(e['A'], e['B'], ('o','i'), weak=True, initial_data={'o':'init'})
B = dict(weaktb=b_weaktb, tb2=b_tb2, tbshift=b_tbshift, tbloop=b_tbloop, hyb2=b_hyb2, weak2=b_weak2, weakonly=b_weakonly)
if __name__ == '__main__':
    name = sys.argv[1]; UNTIL = int(sys.argv[2]); KK = int(sys.argv[3]); CACHE = sys.argv[4] == '1'; LAZY = sys.argv[5] == '1'; DD = int(sys.argv[6]); budget = float(sys.argv[7]); SYNC = set(sys.argv[8]) if len(sys.argv) > 8 else set()
    BUILD = B[name]; sys.stderr = open('/dev/null', 'w')
    eng = Engine(); t0 = time.time()
    res, complete = eng.explore(scenario, budget_s=budget)
    from collections import Counter
    c = Counter((r[1][0], tuple(sorted(set(r[1][-3])))) if r[0] == 'ok' else (r[0],) for r in res)
    print(sys.argv[1:7], 'complete', complete, 'paths', eng.paths, 'time', round(time.time() - t0, 1))
    for k, v in c.most_common(): print('   ', v, k)
    seen = set()
    for r in res:
        if r[0] == 'ok' and (r[1][-3] or r[1][0] != 'done'):
            key = (r[1][0], tuple(sorted(set(r[1][-3]))))
            if key in seen: continue
            seen.add(key); print('  EX', key, r[1][-2], '\n      LOG', r[1][-1])

"""C14 Fault containment and clean shutdown."""
from vk import common, sysrun, remote
from vk.kernels import c14 as K


def run(rep, tier, seed, args):
    jobs = K.jobs(tier)
    rep.rule = ('one case = one explored path of the real World.run() in which one simulator (enumerated) fails at a request index chosen by the solver '
                '(a symbolic index compared with the request counter: setup_done, each step, each get_data), fault kind and stage enumerated, all reply orders '
                'including replies delivered during shutdown; non-trivial = the fault actually fired on the path')
    rep.bounds = {'simulators': '2 (thorough 3)', 'steps': 'K=2', 'fault kinds': ['exception in the handler', 'ConnectionResetError from send', 'IncompleteReadError from send'],
                  'stages': 'failure instead of the reply (after the latency) / at send time',
                  'remote jobs': 'in-memory remote transport (vk.remote): handler failure (failure reply), process exit when a request arrives / after handling it '
                                 '(connection closes); all simulator->mosaik message orders; RemoteProxy.stop() timeout racing with the reaction of the simulator; '
                                 'observed: error raised or logged, finalize at the simulator side, process left behind, connection closed by mosaik, pending tasks',
                  'outside': 'operating-system processes and sockets (the remote jobs model a process exit as its connection closing, no spontaneous '
                             'ConnectionResetError), the cmd starter (subprocess.Popen), wall-clock promptness (decided as: finitely many deliveries / '
                             'within one virtual second)'}
    rep.assumptions = list(sysrun.STUBS) + list(remote.STUBS) + ['a closed connection is modelled by the exceptions a RemoteProxy.send() raises in that case (asyncio.IncompleteReadError from Channel.send, ConnectionResetError from the stream writer)',
                                           'pending work = asyncio tasks of the loop that are not done when World.shutdown() closes it']
    rep.add_jobs(common.run_jobs(jobs))

"""C11 Connection validation and group scoping."""
from vk import common, sysrun, topo as T
from vk.kernels import c11 as K
from vk.props import sysprops as S


def run(rep, tier, seed, args):
    jobs = K.jobs(tier)
    # sibling distinctness at run time: sibling groups under a parent group / at root, monitored by the reference
    # (which keeps groups distinct by identity)
    q = tier == 'quick'
    sib = [
        T.mk('sib_root', [['A', 'B'], ['C']], {'A': 'ev', 'B': 'ev', 'C': 'ev'}, [('A', 'B'), ('B', 'A', {'weak': True}), ('B', 'C')], init={'A': 0}),
        T.mk('sib_par', [[['A', 'B'], ['C']]], {'A': 'ev', 'B': 'ev', 'C': 'ev'}, [('A', 'B'), ('B', 'A', {'weak': True}), ('B', 'C')], init={'A': 0}),
        T.mk('sib_par_back', [[['A', 'B'], ['C']]], {'A': 'ev', 'B': 'ev', 'C': 'ev'},
             [('A', 'B'), ('B', 'A', {'weak': True}), ('B', 'C'), ('C', 'A', {'k': 1})], init={'A': 0}),
        T.mk('sib_par_in', [[['A', 'B'], ['C']]], {'A': 'ev', 'B': 'ev', 'C': 'ev'},
             [('C', 'A'), ('A', 'B'), ('B', 'A', {'weak': True})], init={'C': 0}),
        T.mk('sib_pair', [[['A'], ['B']]], {'A': 'ev', 'B': 'ev'}, [('A', 'B'), ('B', 'A', {'k': 1})], init={'A': 0}),
    ]
    for t in sib:
        for c in S.cfgs(t, tier, caches=(True, False) if not q else (True,), K=3 if q else 4, until=2, masks='extremes' if q else 'all', lazies=(True,) if q else (True, False)):
            c['rules'] = ['C01', 'C02', 'C05']
            c['rule_prefix'] = 'C11.'
            c['no_self'] = ['A', 'B']
            jobs.append(S.job('C11', t, c, budget_s=200))
    rep.rule = ('one case = one path: a group placement x simulator types x any_inputs (enumerated) with source/destination attribute, weak, '
                'time_shifted kind (False / True / unbounded symbolic int), initial data chosen by the engine, connect() called through the public API '
                'and the world then run under the reference monitors; plus complete explorations of sibling-group scenarios; non-trivial = connect() was reached')
    rep.bounds = {'simulators': '2 (validation), 3 (sibling-group runs)', 'group placements': '8 (root, same group, nested either way, siblings at root, siblings under a parent, nested sibling)',
                  'attribute pools': 'valid outputs/inputs of the type plus one non-existing name', 'pairs per call': '1 or 2',
                  'outside': 'async_requests connections; entities of the same simulator'}
    rep.assumptions = list(sysrun.STUBS) + ['oracle: the four rejection reasons of the statement, nothing else; rule ids C01/C02/C03 raised in a C11 run are reported as C11.* only through the C11.run / reference alarms of this check']
    rep.add_jobs(common.run_jobs(jobs))

"""C15 kernel: API version adaptation, through World.start() and a short run.

Version strings are structured objects: 1-3 components, each an unbounded symbolic
non-negative int (SymVersion.split('.') yields components which the symbolic-aware int()
bound in mosaik.proxies / mosaik.adapters maps to symbolic ints).  Signature kinds of
the in-process simulator, presence of `type` and the configured api_version are
enumerated.  In concrete replay real strings are used."""
from __future__ import annotations

import builtins
import contextlib
import copy

import mosaik
import mosaik_api_v3
from mosaik.exceptions import ScenarioError

from vk import engine as E
from vk.tt import b_and, b_or, b_not

CTX = {}


class SymComp:
    def __init__(self, v):
        self.v = v

    def __repr__(self):
        return f'<comp {self.v}>'


class SymVersion:
    """stands for the string '.'.join(str(c) for c in comps)"""

    def __init__(self, comps):
        self.comps = comps

    def split(self, sep=None):
        assert sep == '.'
        return [SymComp(c) for c in self.comps]

    def __deepcopy__(self, memo):
        return self

    def __copy__(self):
        return self

    def __str__(self):
        return '<version>'

    __repr__ = __str__


def sym_int(x=0, *a):
    if isinstance(x, SymComp):
        return x.v
    if isinstance(x, E.SymInt):
        return x
    return builtins.int(x, *a)


@contextlib.contextmanager
def patched():
    import mosaik.proxies as P
    import mosaik.adapters as A
    P.int = sym_int
    A.int = sym_int
    try:
        yield
    finally:
        del P.int
        del A.int


def mk_version(eng, name, n):
    comps = [eng.int(f'{name}{i}', 0) for i in range(n)]
    if eng.mode == 'sym':
        return SymVersion(comps), comps
    return '.'.join(str(c) for c in comps), comps


META = {'models': {'M': {'public': True, 'params': [], 'attrs': ['i', 'o']}}, 'extra_methods': ['ping']}


_MISSING = object()


class _Base(mosaik_api_v3.Simulator):
    def __init__(self):
        super().__init__(copy.deepcopy(META))
        self.calls = []

    def _init(self, sid, kw, got_tr):
        self.sid = sid
        self.calls.append(('init', got_tr, sorted(kw)))
        v = kw.get('version', None)
        if v is not None:
            self.meta['api_version'] = v
        else:
            self.meta.pop('api_version', None)   # the base class fills in the current version
        if kw.get('typ'):
            self.meta['type'] = kw['typ']
        CTX['sims'][sid] = self
        return self.meta

    def create(self, num, model):
        return [{'eid': 'e', 'type': model}]

    def setup_done(self):
        self.calls.append(('setup_done',))

    def ping(self, v):
        # an extra method (meta['extra_methods']): valid for every API version
        self.calls.append(('ping', v))
        return ['pong', v]

    def _step(self, args):
        self.calls.append(('step', len(args), args[0], copy.deepcopy(args[1])))
        self.t = args[0]
        return args[0] + 1

    def get_data(self, outputs):
        self.calls.append(('get_data',))
        return {'e': {'o': f'{self.sid}@{self.t}'}}


class SimFull(_Base):
    """current signatures"""
    def init(self, sid, time_resolution, **kw):
        return self._init(sid, kw, True)

    def step(self, time, inputs, max_advance=_MISSING):
        return self._step((time, inputs) if max_advance is _MISSING else (time, inputs, max_advance))


class SimOld(_Base):
    """pre-v3 signatures: init without time_resolution, step without max_advance"""
    def init(self, sid, version=None, typ=None):
        return self._init(sid, {'version': version, 'typ': typ}, False)

    def step(self, time, inputs, *extra):
        return self._step((time, inputs) + extra)


class SimOldStep(_Base):
    """init can take time_resolution (defaulted) but step has no max_advance"""
    def init(self, sid, time_resolution=None, version=None, typ=None):
        return self._init(sid, {'version': version, 'typ': typ}, time_resolution is not None)

    def step(self, time, inputs, *extra):
        return self._step((time, inputs) + extra)


class SimKw(_Base):
    """init takes **kwargs only; step has max_advance"""
    def init(self, sid, **kw):
        tr = 'time_resolution' in kw
        kw.pop('time_resolution', None)
        return self._init(sid, kw, tr)

    def step(self, time, inputs, max_advance=_MISSING):
        return self._step((time, inputs) if max_advance is _MISSING else (time, inputs, max_advance))


KINDS = {'full': (SimFull, True), 'old': (SimOld, False), 'oldstep': (SimOldStep, False), 'kw': (SimKw, True)}

ATTR = {'full': 'SimFull', 'old': 'SimOld', 'oldstep': 'SimOldStep', 'kw': 'SimKw'}   # module attribute names (sim_config)

# all stub classes carry the same class name (as classes called `Sim` from different packages would): nothing in mosaik may
# key a decision on the bare class name
for _c, _ in KINDS.values():
    _c.__name__ = 'Sim'


def lex_ge(comps, ref):
    """list comparison comps >= ref (ref: concrete list) as a term; lists of different lengths compare like Python lists"""
    # comps >= ref  <=>  not (comps < ref)
    return b_not(lex_lt(comps, ref))


def lex_lt(comps, ref):
    r = len(comps) < len(ref)   # all common elements equal: shorter is smaller
    for x, y in reversed(list(zip(comps, ref))):
        r = b_or(x < y if not isinstance(x < y, bool) else bool(x < y), b_and(_eq(x, y), r))
    return r


def _eq(x, y):
    r = x == y
    return r if not isinstance(r, bool) else bool(r)


def list_eq(a, b):
    if len(a) != len(b):
        return False
    return b_and(*[_eq(x, y) for x, y in zip(a, b)])


def adapt(kind, ncomp, explicit, has_type, twin_first=False, second=False):
    """kind: signature kind; ncomp: 0 (no api_version in meta) | 1..3; explicit: 'none' | 'same' | 'other1'..'other3';
    has_type: whether meta carries a type.  second: another instance is started from the same sim_config entry (with the
    same announcement) first; its fate is decided by the plain jobs, the instance under test is the second one."""
    cls, compliant = KINDS[kind]

    def h(eng):
        CTX.clear()
        CTX['sims'] = {}
        version = comps = None
        if ncomp:
            version, comps = mk_version(eng, 'v', ncomp)
        eff = comps if comps is not None else [1]
        cfg = {'python': f'vk.kernels.c15:{ATTR[kind]}'}
        exp_comps = None
        if explicit == 'same':
            cfg['api_version'] = version if version is not None else '1'
            exp_comps = eff
        elif explicit.startswith('other'):
            ev, exp_comps = mk_version(eng, 'x', int(explicit[5:]))
            cfg['api_version'] = ev
        fp = [kind, ncomp, explicit, has_type, twin_first] + (['second'] if second else [])
        desc = f'twin_first={twin_first} second_from_entry={second} signatures={kind} version components={ncomp} configured api_version={explicit} type in meta={has_type}'
        # ---- oracle
        too_new = lex_ge(eff, [4])
        claims_v3 = lex_ge(eff, [3])
        mismatch = False
        if exp_comps is not None:
            mismatch = b_not(list_eq(eff, exp_comps))
            # mosaik treats an explicit version that parses to an empty/zero list as given; '0' style is still a list -> truthy
        bad_sig = b_and(claims_v3, not compliant)
        no_type = b_and(claims_v3, not has_type)   # v3 requires a type (ModelFactory); not part of the C15 rejection list
        must_reject = b_or(too_new, mismatch, bad_sig)
        with patched():
            w = mosaik.World({'X': cfg, 'T': {'python': 'vk.kernels.c15:SimFull'}}, skip_greetings=True)
            try:
                kw = {}
                if version is not None:
                    kw['version'] = version
                typ = 'time-based' if has_type in (True, False) else has_type    # the type the stub announces (if any) / the twin has
                if has_type:
                    kw['typ'] = typ
                p = None
                if twin_first:
                    # a current-version simulator (class of the same name) is started before the one under test
                    p = w.start('T', sim_id='P', version='3.0', typ='time-based')
                if second:
                    try:
                        w.start('X', sim_id='X0', **kw)
                    except (ScenarioError, TypeError):
                        pass
                try:
                    x = w.start('X', sim_id='X', **kw)
                except TypeError as e:
                    eng.alarm('C15.crash', f'start() failed with TypeError (a request not valid for this simulator was sent): {str(e)[:120]}: {desc}', {'fp': fp})
                    return ('crash', {'nontrivial': True})
                except ScenarioError as e:
                    ok = eng.check(b_or(must_reject, no_type), 'C15.reject', f'start() rejected a simulator that must be accepted: {desc}: {str(e)[:160]}', {'fp': fp})
                    return ('rejected', {'nontrivial': True})
                eng.check(b_not(must_reject), 'C15.accept', f'start() accepted a simulator that must be rejected: {desc}', {'fp': fp})
                sx = CTX['sims']['X']
                # time_resolution only if init can take it
                eng.check(sx.calls[0][1] == compliant, 'C15.time_resolution',
                          f'time_resolution passed={sx.calls[0][1]} but signatures compliant={compliant}: {desc}', {'fp': fp})
                eng.check(w.sims['X'].type == typ, 'C15.type', f'type is {w.sims["X"].type}, announced {typ if has_type else "none (default time-based)"}: {desc}', {'fp': fp})
                # an extra method announced in the meta reaches the simulator and its result comes back, whatever the version
                try:
                    pong = x.ping(7)
                except Exception as e:  # noqa
                    pong = f'{type(e).__name__}: {e}'
                eng.check(pong == ['pong', 7] and ('ping', 7) in sx.calls, 'C15.same',
                          f'extra method call ping(7) returned {pong!r}, simulator received {[c for c in sx.calls if c[0] == "ping"]}: {desc}', {'fp': fp + ['extra']})
                # a current-version twin in the same scenario, both fed by a producer
                if p is None:
                    p = w.start('T', sim_id='P', version='3.0', typ='time-based')
                t = w.start('T', sim_id='T', version='3.0', typ=typ)
                pe, xe, te = p.M(), x.M(), t.M()
                w.connect(pe, xe, ('o', 'i'))
                w.connect(pe, te, ('o', 'i'))
                w.connect(xe, te, ('o', 'i'), time_shifted=True, initial_data={'o': 'init'})
                try:
                    w.run(until=3, print_progress=False)
                except Exception as e:  # noqa
                    eng.alarm('C15.crash', f'run() with the adapted simulator failed: {type(e).__name__}: {str(e)[:120]}: {desc}', {'fp': fp})
                    return ('crash', {'nontrivial': True})
                st = CTX['sims']['T']
                steps_x = [c for c in sx.calls if c[0] == 'step']
                steps_t = [c for c in st.calls if c[0] == 'step']
                is_v3 = lex_ge(eff, [3])
                has_sd = lex_ge(eff, [2, 2])
                nargs = {c[1] for c in steps_x}
                eng.check(b_or(b_and(is_v3, nargs == {3}), b_and(b_not(is_v3), nargs == {2})), 'C15.step_arity',
                          f'step received {nargs} arguments: {desc}', {'fp': fp})
                got_sd = any(c[0] == 'setup_done' for c in sx.calls)
                eng.check(b_or(b_and(has_sd, got_sd), b_and(b_not(has_sd), not got_sd)), 'C15.setup_done',
                          f'setup_done delivered={got_sd}: {desc}', {'fp': fp})
                # same scheduling and data as the twin (the twin additionally has the input from X)
                sched_x = [(c[2], c[3]) for c in steps_x]
                sched_t = [(c[2], {'e': {'i': {k: v for k, v in c[3]['e']['i'].items() if k.startswith('P.')}}}) for c in steps_t]
                eng.check(sched_x == sched_t, 'C15.same', f'stub saw {sched_x} but the current-version twin saw {sched_t}: {desc}', {'fp': fp})
                eng.check(len(steps_x) == 3, 'C15.same', f'stub stepped {len(steps_x)} times: {desc}', {'fp': fp})
                if typ != 'time-based':
                    # event-based / hybrid stubs: X's output is an event for the twin (delivered once, at the step it is due)
                    seen = [c[3]['e']['i'].get('X.e') for c in steps_t]
                    eng.check(seen == ['init', 'X@0', 'X@1'], 'C15.same', f'twin ({typ}) received {seen} from the stub: {desc}', {'fp': fp})
                    return ('accepted', {'nontrivial': True})
                # and X's output reached T like any other simulator's
                seen = [c[3]['e']['i'].get('X.e') for c in steps_t]
                eng.check(seen == ['init', 'X@0', 'X@1'], 'C15.same', f'twin received {seen} from the stub: {desc}', {'fp': fp})
                return ('accepted', {'nontrivial': True})
            finally:
                try:
                    w.shutdown()
                except Exception:
                    pass
    return h


def string_case(s):
    """concrete: a simulator announcing the version STRING s (no configured version) through the real extract_version and
    init_and_get_adapter; used to replay counterexamples of the CrossHair side engine (vk.xcheck.crosshair_c15) without CrossHair"""
    def h(eng):
        from vk.xcheck import c15_contracts as C
        if not C.wellformed(s):
            return ('malformed', {'nontrivial': False})
        got, exp = C.classify(s), C.expected(s)
        if got != exp:
            eng.alarm('C15.string', f'a simulator announcing api_version {s!r} is treated as {got!r}, the statement says {exp!r}', {'fp': ['string', s]})
        return (got, {'nontrivial': True})
    return h


def jobs(tier):
    out = []
    q = tier == 'quick'
    for kind in KINDS:
        for ncomp in (0, 1, 2, 3):
            for explicit in ('none', 'same', 'other1', 'other2') + (() if q else ('other3',)):
                for has_type in ('event-based', 'hybrid'):
                    if explicit in ('none', 'same') or not q:
                        out.append({'id': f'adapt|{kind}|n{ncomp}|{explicit}|type={has_type}', 'harness': 'vk.kernels.c15:adapt',
                                    'params': {'kind': kind, 'ncomp': ncomp, 'explicit': explicit, 'has_type': has_type}, 'budget_s': 200})
                for has_type in (True, False):
                    out.append({'id': f'adapt|{kind}|n{ncomp}|{explicit}|type={int(has_type)}', 'harness': 'vk.kernels.c15:adapt',
                                'params': {'kind': kind, 'ncomp': ncomp, 'explicit': explicit, 'has_type': has_type}, 'budget_s': 200})
                    if explicit != 'none' and has_type and (not q or explicit != 'other2'):
                        out.append({'id': f'adapt|{kind}|n{ncomp}|{explicit}|type={int(has_type)}|second', 'harness': 'vk.kernels.c15:adapt',
                                    'params': {'kind': kind, 'ncomp': ncomp, 'explicit': explicit, 'has_type': has_type, 'second': True},
                                    'budget_s': 200})
                    if explicit == 'none' and has_type:
                        out.append({'id': f'adapt|{kind}|n{ncomp}|{explicit}|type={int(has_type)}|twin_first', 'harness': 'vk.kernels.c15:adapt',
                                    'params': {'kind': kind, 'ncomp': ncomp, 'explicit': explicit, 'has_type': has_type, 'twin_first': True},
                                    'budget_s': 200})
    return out

import sys, mosaik, time
cfg = {'R': {'cmd': '%(python)s rsim_rst.py %(addr)s', 'env': {'PYTHONPATH': '/repo'}}}
w = mosaik.World(cfg, skip_greetings=True)
a = w.start('R', sim_id='A', die_at=2).M()
b = w.start('R', sim_id='B').M()
w.connect(a, b, ('x', 'y'))
t=time.time()
try:
    w.run(until=5, print_progress=False)
    print('returned', time.time()-t)
except BaseException as e:
    print('raised', type(e), e, time.time()-t)

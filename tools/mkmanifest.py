#!/usr/bin/env python3
"""Regenerates MANIFEST.json from the table below (run from /verif)."""
import json
import os

HERE = os.path.dirname(os.path.dirname(os.path.abspath(__file__)))

SYS_NOTE = ('bounded: <= 3 simulators, K steps per simulator (2-3), D early deliveries (0 quick, <= 1 thorough), the curated and generated '
            'topology families of vk/topo.py; unbounded: step offsets, output times, until and shift amounts where marked symbolic. '
            'Trusts asyncio, heapq, z3. Environment stubs (oracle proxy/loop, salted SimRunner hash, progress-bar functions, symbolic-aware int) '
            'are listed in the evidence. Sockets and JSON text are outside the claim: the scheduling effect of remoteness is modelled by '
            'parked replies released in a solver-chosen order (C05 additionally runs a family behind the in-memory remote transport of vk.remote).')
SYS_TECH = 'symbolic execution of the real World.run()/scheduler with z3 (own executor) under a solver-driven event loop; reference monitor in tiered time; concrete replay'

CHECKS = {
    'C01': ('every path of the real scheduler within the bounds satisfies: no step of X begins while a step of a feeding simulator whose delayed output is due at or before it is unfinished, and no feeding simulator is stepped - or becomes required to step - at a time due at or before a step X has begun; decided by z3 for all behaviours (unbounded times) and all reply orders', 'DESIGN.md section 5 C01'),
    'C02': ('every path: each step matches the least outstanding demand of the reference (initial steps, returned next steps < until, delayed trigger outputs), strictly increasing, within [0, until), no demand left at the end, no late or spurious step; decided by z3 for all behaviours and reply orders within the bounds', 'DESIGN.md section 5 C02'),
    'C03': ('every path: the inputs dict of every step equals the reference data model (latest due persistent value or initial data; every due event exactly once) computed from the recorded get_data replies, with cache on and off; decided by z3 within the bounds', 'DESIGN.md section 5 C03'),
    'C05': ('every path: run() returns; no deadlock (nothing ready, nothing pending), no livelock, no exception from run() for API-compliant simulators; for all behaviours and reply orders within the bounds', 'DESIGN.md section 5 C05'),
    'C07': ('every path: every later step inside a promised window (t, max_advance] is caused by a self-schedule or by a trigger whose causal past contains a step of the same simulator at or after t; max_advance <= until and == until without trigger inputs', 'DESIGN.md section 5 C07'),
    'C10': ('every path with lazy_stepping=True: when a simulator begins a step no simulator it feeds has an outstanding (demanded or in-flight) earlier step, and no earlier step of a consumer becomes outstanding after its producer has begun a later one', 'DESIGN.md section 5 C10'),
}

KERNEL = {
    'C08': {
        'text': "bounded symbolic execution of the real TieredInterval/TieredTime operators, update_min and min: tier values are unbounded symbolic integers, every branch and every obligation (trichotomy and converse agreement on semantically comparable pairs, transitivity, 'a<b => never later for any departure time', monotone addition, associativity, action law) is decided by z3 for every shape up to 3 (quick) / 5 (thorough; triples and associativity 4) tiers; counterexamples are replayed with plain ints",
        'ref': 'DESIGN.md section 5 C08',
        'note': 'bounded in the number of tiers (group nesting depth), unbounded in tier values >= 0; trusts CPython tuple comparison / total_ordering / dataclass eq (executed, not modelled) and z3',
        'tech': 'symbolic execution of the real Python code with z3 (own executor), QF_LIA obligations; thorough tier adds CrossHair (independent symbolic executor) on O1/O3 per shape pair',
    },
}

KERNEL['C12'] = {
    'text': 'bounded symbolic execution of the real parse_attrs / parse_set_triple / OutSet operators with every attribute list an arbitrary subset of a small universe (bit-vector set model bound to the name frozenset): for every simulator type x any_inputs x presence pattern of the five keys, z3 decides rejected <=> the docstring rule rejects, the four result sets equal the rule, the partitions hold and explicitly given lists are returned unchanged; the set algebra is decided per operator and operand kind including a generic foreign element',
    'ref': 'DESIGN.md section 5 C12',
    'note': 'universe of 4 (quick) / 8 (thorough) attribute names: all subsets at once; lists modelled as sets (no duplicates); frozenset replaced by a model with the same protocol, OutSet and parse code executed for real; concrete replay on real frozensets',
    'tech': 'symbolic execution of the real Python code with z3 (own executor), QF_BV set model',
}
KERNEL['C18'] = {
    'text': 'bounded symbolic execution of the real connect_randomly / connect_many_to_one with a solver-driven RNG: every randint outcome and every shuffle permutation is explored, max_connects is an unbounded symbolic int; z3 decides each-source-once, evenness, max_connects, returned set and absence of exceptions on every path',
    'ref': 'DESIGN.md section 5 C18',
    'note': 'set sizes <= 4x3 (quick) / 7x4 (thorough); World.connect is a recorder; mosaik.util.random replaced by the solver-driven source, so every seed is covered; precondition |src| <= |dest|*max_connects assumed',
    'tech': 'symbolic execution of the real Python code with z3 (own executor), RNG as symbolic/choice variables',
}
KERNEL['C06'] = {
    'text': 'through the public API (start/group/connect/run): for every enumerated group placement and edge structure over 2-3 simulators (thorough: 4-rings) with every shift amount an unbounded symbolic int, z3 decides on each path: ScenarioError before any step <=> an unresolved cycle exists (oracle from the simple cycles of the chosen multigraph), no other exception, and the cycle named in the message is a real unresolved cycle',
    'ref': 'DESIGN.md section 5 C06',
    'note': 'N=2 all structures incl. self-connections (quick without the both-kinds multi-edges), N=3 without self-pairs (quick: rotating slice by VERIF_SEED), group depth <= 3; shifts unbounded; cache=False; simulators produce no data (until=1)',
    'tech': 'symbolic execution of the real connect()/ensure_no_dataflow_cycles with z3 (own executor); structure enumeration + symbolic shifts',
}
KERNEL['C11'] = {
    'text': 'through the public API: for 8 group placements x 9 type pairs x any_inputs, with attribute pair, weak, time_shifted (False/True/unbounded symbolic int), initial data and a second pair chosen by the engine, z3 decides connect() raises ScenarioError <=> one of the four reasons of the statement applies; the world is then run and a rejected pair must cause no output request, no input and no trigger; sibling-group scenarios (at root and under a parent) are explored completely under the reference monitors, which keep groups distinct by identity',
    'ref': 'DESIGN.md section 5 C11',
    'note': '2 simulators for validation (deterministic talkative behaviours, until=2), 3 for sibling runs (event-based loops, K<=3-4, until=2); async_requests and same-simulator connections outside',
    'tech': 'symbolic execution of the real connect()/run() with z3 (own executor) + reference monitor',
}

KERNEL['C15'] = {
    'text': 'through World.start() (real init_and_get_adapter, LocalProxy.init, extract_version, adapters) and a 3-step run next to a current-version twin: for every signature kind x number of version components x configured api_version kind x type presence, with every version component an unbounded symbolic int, z3 decides rejection <=> (version >= 4 or mismatch with the configured version or v3 claimed without v3 signatures), step arity, setup_done delivery, time_resolution passing, type defaulting, and equality of the (time, inputs) sequence with the twin',
    'ref': 'DESIGN.md section 5 C15',
    'note': 'version strings are structured objects (1-3 symbolic components) whose split/int go through a symbolic-aware int bound in mosaik.proxies/mosaik.adapters; malformed strings and remote simulators are outside; time-based old-API simulators only',
    'tech': 'symbolic execution of the real Python code with z3 (own executor); version components as unbounded symbolic ints',
}
KERNEL['C13'] = {
    'text': 'system runs of the real scheduler in which one simulator sends one malformed reply at a solver-chosen step ordinal (next step t+delta with delta <= 0 symbolic, non-int next step, None from a time-based simulator, output time t-eps with eps >= 1 symbolic): on every path run() must raise an exception (not an assert) whose text contains the simulator id and no step request may follow the delivery of the malformed reply; all reply orders',
    'ref': 'DESIGN.md section 5 C13',
    'note': 'N=2 (thorough 3), K=3, until=3, exactly one malformed reply; bool next steps not demanded to be rejected',
    'tech': SYS_TECH,
}
KERNEL['C09'] = {
    'text': 'system runs of weak loops (2- and 3-simulator loops, nested group so the loop tier is deeper, loop plus observer) with max_loop_iterations = M an unbounded symbolic int: on every path no simulator performs a sub-step with index >= M, a loop that demands more makes run() raise a SimulationError naming a simulator that exceeded the bound, a loop that settles is never interrupted and no demanded step is lost (reference demand bookkeeping)',
    'ref': 'DESIGN.md section 5 C09',
    'note': 'loop participants are event-based without self-steps (one hybrid variant), K <= 4 (quick) / 6 (thorough) sub-steps per simulator, until=2; all reply orders (D=0)',
    'tech': SYS_TECH,
}

KERNEL['C16'] = {
    'text': 'system runs of the real scheduler with A (time-based) and 1-2 generator agents connected with async_requests=True: the solver decides which get_data/set_data requests are made, all step sizes and when each request and reply is delivered; on every path a value set by an agent appears in exactly the next step of A under the right source id and never again, A never begins a later step while an agent step is unfinished (lazy on and off), and requests without an async connection make run() fail with ScenarioError',
    'ref': 'DESIGN.md section 5 C16',
    'note': 'agents <= 2, K <= 3 (thorough 4), in-process generator agents with a parked latency point before every request; agents also behind the in-memory remote transport (vk.remote: real RemoteProxy/Channel/run_simulator; sockets and JSON text outside); get_data values not judged',
    'tech': SYS_TECH,
}
KERNEL['C14'] = {
    'text': 'system runs of the real World.run() in which one simulator fails at a solver-chosen request index (setup_done, each step, each get_data) by a handler exception or a closed-connection exception from send(), before or instead of the reply: on every path run() ends with an exception after finitely many deliveries, every other simulator is finalized exactly once and gets no request afterwards, the loop is closed and no task is pending when it is closed; all reply orders including replies arriving during shutdown',
    'ref': 'DESIGN.md section 5 C14',
    'note': 'in-process runs plus runs behind the in-memory remote transport (vk.remote: real start_connect/RemoteProxy/Channel/stream classes/run_simulator on in-memory transports with a virtual clock; a process exit is its connection closing); operating-system processes and sockets, the cmd starter and spontaneous ConnectionResetErrors are outside; N=2 (thorough 3), K=2',
    'tech': SYS_TECH + '; fault point as a symbolic request index',
}

KERNEL['C04'] = {
    'text': '2-safety by self-composition: two runs of the real World.run() inside one symbolic path, the canonical configuration (all synchronous, lazy on, cache on, debug off, start order as written) and one variant (every transport-mode assignment with solver-chosen delivery order, cache off, lazy off, debug on, reversed start order, hash salt; thorough: combined and D=1), sharing the symbolic simulator behaviour; z3 decides equality of the per-simulator (time, inputs) sequences (times as terms, inputs with provenance tokens)',
    'ref': 'DESIGN.md section 5 C04',
    'note': SYS_NOTE + ' The local/remote dimension: asynchronous in-process transport in every job, and a variant behind the in-memory remote transport (vk.remote: everything above the socket and the JSON text is the real code); sockets, subprocesses and JSON text are outside.',
    'tech': SYS_TECH + '; self-composition (two runs per path)',
}
KERNEL['C17'] = {
    'text': 'system runs of the real World.run(rt_factor=...) on a virtual clock (scheduler.perf_counter and loop.time() read one value only the oracle advances; real asyncio timer heap; selector never blocks): for rt_factor in {1/2,1,3} x time_resolution in {1,1/2} x grouped x 1-2 simulators, with symbolic timer lateness / reply latency / external event time and solver-chosen event order, z3 decides the pacing bound at every step begin, completion without exception, no too-slow report under zero latency and exact timers, rt_strict as a second run in the same path, and the three set_event cases',
    'ref': 'DESIGN.md section 5 C17',
    'note': 'the clock is a real number (IEEE-754 rounding outside the claim); N <= 2, until 3-4, <= 1 external event; rt_check wrapped by a recorder that calls the original (to attribute reports to simulators)',
    'tech': SYS_TECH + '; virtual real-valued clock (QF_LRA)',
}

NOT_APPLICABLE = {}


def main():
    checks = []
    ids = sorted(set(CHECKS) | set(KERNEL))
    for pid in ids:
        if pid in CHECKS:
            text, ref = CHECKS[pid]
            note, tech = SYS_NOTE, SYS_TECH
        else:
            k = KERNEL[pid]
            text, ref, note, tech = k['text'], k['ref'], k['note'], k['tech']
        checks.append({
            'property_id': pid,
            'quick_cmd': f'./run_check.sh {pid} quick',
            'thorough_cmd': f'./run_check.sh {pid} thorough',
            'evidence_file': f'evidence/{pid}.json',
            'replay_cmd_template': 'PYTHONPATH=/verif:/repo .venv/bin/python -m vk.replay {path}',
            'engine': 'vk',
            'level_claimed': {'category': 'other', 'text': text, 'design_ref': ref},
            'level_note': note,
            'technique': tech + '; a sample of the z3 queries of every job (all queries for C08 and C12) is re-decided by cvc5 (SMT-LIB2 export, disagreement = harness error)',
        })
    na = []
    for i in range(1, 19):
        pid = f'C{i:02d}'
        if pid not in ids:
            na.append({'property_id': pid, 'reason': NOT_APPLICABLE.get(
                pid, 'check under construction in this build session (design in DESIGN.md section 5); not yet claimed')})
    m = {
        'version': 1,
        'setup_cmd': './ensure_env.sh',
        'hooks': {
            'guard': 'MOSAIK_VERIF',
            'enable': 'no source hooks are needed: checks import /repo/mosaik from the working tree and interpose through public extension points (World(asyncio_loop=...), simmanager.StarterCollection) and by rebinding module attributes in the harness process; run_check.sh exports MOSAIK_VERIF=1 for uniformity',
            'baseline_off_cmd': 'cd /repo && /venv/bin/python -m pytest -ra -q -p no:cacheprovider --timeout=900 --continue-on-collection-errors',
            'source_commits': [],
            'add_only': True,
        },
        'engines': [
            {'name': 'vk', 'path': 'vk/engine.py', 'serves_properties': ids,
             'kind_free_text': 'own symbolic executor for Python (z3-backed proxy values, depth-first re-execution with incremental solver scopes, concrete replay); system harness vk/sysrun.py, reference model vk/refmodel.py; second solver vk/xcheck/second_solver.py (cvc5 binary on exported queries)'},
        ],
        'checks': checks,
        'not_applicable': na,
        'notes': 'fix: commits in /repo repair genuine defects found by these checks (see known_findings.json and DESIGN.md section 6)',
    }
    with open(os.path.join(HERE, 'MANIFEST.json'), 'w') as f:
        json.dump(m, f, indent=1)
    print('checks', len(checks), 'not_applicable', len(na))


if __name__ == '__main__':
    main()

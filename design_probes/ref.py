"""Probe: reference semantics (tiered time) validated against the repo's own scenario tests (concrete)."""
import asyncio, sys, importlib, glob, os, warnings, copy, contextlib
sys.path.insert(0, '/repo')
import mosaik
from mosaik import simmanager
from mosaik.proxies import LocalProxy
from mosaik.scenario import parse_attrs
from loguru import logger
logger.remove(); warnings.simplefilter('ignore')

SENT = object()

class Ref:
    def __init__(self):
        self.sims = {}; self.conns = []; self.until = None; self.alarms = []; self.seq = 0
        self.group_stack = ['R']; self.gid = 0; self.checked_inputs = 0; self.steps = 0
    def alarm(self, rule, msg): self.alarms.append((rule, msg))
    # ---- scenario description
    def on_start(self, sid):
        self.sims[sid] = dict(path=list(self.group_stack), demands={}, done=[], inflight=None, meta=None, ents={}, initial_event=None)
    def on_meta(self, sid, meta):
        s = self.sims[sid]; s['meta'] = meta; s['type'] = meta['type']
        d = len(s['path'])
        if meta['type'] != 'event-based': s['demands'][(0,) * d] = ['init']
    def on_initial_event(self, sid, t):
        s = self.sims[sid]; d = len(s['path']); s['demands'] = {(t,) + (0,) * (d - 1): ['init']}
    def on_connect(self, src, dst, pairs, shifted, weak, initial, async_requests):
        for sa, da in pairs:
            sm = src.model_mock; dm = dst.model_mock
            self.conns.append(dict(ss=src.sid, se=src.eid, sa=sa, ds=dst.sid, de=dst.eid, da=da, k=int(shifted), weak=bool(weak),
                                   initial=initial.get(sa, SENT), persistent=sa in sm.measurement_outputs, trigger=da in dm.event_inputs,
                                   produced=[], delivered=set()))
    # ---- tiered time
    def shift(self, c, tau):
        sp = self.sims[c['ss']]['path']; dp = self.sims[c['ds']]['path']
        n = 0
        while n < min(len(sp), len(dp)) and sp[n] == dp[n]: n += 1
        t = list(tau[:n]); t[0] += c['k']
        if c['weak']: t[n - 1] += 1
        return tuple(t) + (0,) * (len(dp) - n)
    # ---- run-time events
    def on_step_begin(self, sid, time, inputs, max_advance):
        s = self.sims[sid]; self.steps += 1
        if not s['demands']:
            self.alarm('C02.spurious', f'{sid} stepped at {time} without demand'); tau = (time,) + (0,) * (len(s['path']) - 1)
        else:
            tau = min(s['demands']);
            if tau[0] != time: self.alarm('C02.wrongtime', f'{sid} stepped at {time}, least demand {tau}, demands {sorted(s["demands"])}')
            s['demands'].pop(tau, None)
        if s['done'] and not tau > s['done'][-1]: self.alarm('C02.order', f'{sid} {tau} after {s["done"][-1]}')
        if not (0 <= time < self.until): self.alarm('C02.range', f'{sid} at {time}')
        s['inflight'] = tau; s['done'].append(tau)
        # C01: all feeding steps due <= tau finished
        for c in self.conns:
            if c['ds'] == sid:
                a = self.sims[c['ss']]
                if a['inflight'] is not None and c['ss'] != sid and self.shift(c, a['inflight']) <= tau:
                    self.alarm('C01.inflight', f'{sid}@{tau} begun while {c["ss"]}@{a["inflight"]} in flight')
                for d in a['demands']:
                    pass
            if c['ss'] == sid:
                x = self.sims[c['ds']]
                for tx in x['done']:
                    if tx >= self.shift(c, tau) and c['ds'] != sid:
                        self.alarm('C01.late', f'{sid}@{tau} stepped after consumer {c["ds"]}@{tx} (due {self.shift(c, tau)})')
        # C03 expected inputs
        exp = {}
        for c in self.conns:
            if c['ds'] != sid: continue
            key = f"{c['ss']}.{c['se']}"
            if c['persistent']:
                cands = [(seq, v) for (to, v, seq) in c['produced'] if self.shift(c, to) <= tau]
                if cands: val = max(cands)[1]
                elif c['initial'] is not SENT: val = c['initial']
                else: val = None
                exp.setdefault(c['de'], {}).setdefault(c['da'], {})[key] = val
            else:
                due = [(seq, v) for (to, v, seq) in c['produced'] if self.shift(c, to) <= tau and seq not in c['delivered']]
                if due:
                    for seq, _ in due: c['delivered'].add(seq)
                    exp.setdefault(c['de'], {}).setdefault(c['da'], {})[key] = max(due)[1]
                elif c['initial'] is not SENT and len(s['done']) == 1 and not c['produced']:
                    exp.setdefault(c['de'], {}).setdefault(c['da'], {})[key] = c['initial']
        self.checked_inputs += 1
        if exp != inputs:
            self.alarm('C03.inputs', f'{sid}@{tau}: expected {exp} got {inputs}')
    def on_step_end(self, sid, nxt):
        s = self.sims[sid]; tau = s['inflight']
        if nxt is not None and nxt < self.until:
            s['demands'].setdefault((nxt,) + (0,) * (len(s['path']) - 1), []).append(('self', sid, tau))
        if not any(c['ss'] == sid for c in self.conns): s['inflight'] = None
    def on_get_data_end(self, sid, data):
        s = self.sims[sid]; tau = s['inflight']
        ot = data.get('time', tau[0])
        tout = tau if ot == tau[0] else (ot,) + (0,) * (len(tau) - 1)
        for c in self.conns:
            if c['ss'] != sid: continue
            if c['se'] in data and c['sa'] in data[c['se']]:
                self.seq += 1
                c['produced'].append((tout, data[c['se']][c['sa']], self.seq))
                if c['trigger']:
                    due = self.shift(c, tout)
                    if due[0] < self.until:
                        x = self.sims[c['ds']]
                        if due in x['done'] and due != x['inflight']: pass
                        if x['done'] and due <= x['done'][-1] and due not in x['done']:
                            self.alarm('C02.latedemand', f'{c["ds"]} gets demand {due} after {x["done"][-1]}')
                        if due not in x['done'] or False:
                            x['demands'].setdefault(due, []).append(('trig', sid, tau))
        s['inflight'] = None
    def on_end(self):
        for sid, s in self.sims.items():
            left = [d for d in s['demands'] if d[0] < self.until]
            if left: self.alarm('C02.lost', f'{sid} demands never executed: {sorted(left)}')

REF = None
class LogProxy(LocalProxy):
    async def send(self, request):
        f, args, kw = request
        sid = getattr(self, '_sid', None)
        if f == 'init': self._sid = sid = args[0]
        if f == 'step': REF.on_step_begin(sid, args[0], copy.deepcopy(args[1]), args[2])
        r = await super().send(request)
        if f == 'init': REF.on_meta(sid, r)
        if f == 'step': REF.on_step_end(sid, r)
        if f == 'get_data': REF.on_get_data_end(sid, r)
        return r
async def my_inproc(mosaik_config, sim_name, sim_config, mosaik_remote):
    base = await simmanager.start_inproc(mosaik_config, sim_name, sim_config, mosaik_remote)
    return LogProxy(base.sim, mosaik_remote)
simmanager.StarterCollection()['python'] = my_inproc

class RWorld(mosaik.World):
    def start(self, sim_name, sim_id=None, **kw):
        # need sid before start: replicate naming only if given
        assert sim_id, 'probe needs explicit sim ids'
        REF.on_start(sim_id)
        return super().start(sim_name, sim_id=sim_id, **kw)
    @contextlib.contextmanager
    def group(self):
        REF.gid += 1; REF.group_stack.append(f'g{REF.gid}')
        with super().group(): yield
        REF.group_stack.pop()
    def connect(self, src, dest, *attr_pairs, async_requests=False, time_shifted=False, initial_data={}, weak=False):
        super().connect(src, dest, *attr_pairs, async_requests=async_requests, time_shifted=time_shifted, initial_data=initial_data, weak=weak)
        pairs = [(a, a) if isinstance(a, str) else tuple(a) for a in attr_pairs]
        REF.on_connect(src, dest, pairs, time_shifted, weak, initial_data, async_requests)
    def set_initial_event(self, sid, time=0):
        super().set_initial_event(sid, time); REF.on_initial_event(sid, time)
    def run(self, until, *a, **kw):
        REF.until = until
        try: return super().run(until, *a, **kw)
        finally: REF.on_end()

if __name__ == '__main__':
    from tests.scenarios.conftest import SIM_CONFIG
    os.chdir('/repo')
    files = sorted(glob.glob('/repo/tests/scenarios/test_*.py'))
    tot = 0; bad = 0
    for f in files:
        name = os.path.basename(f)[:-3]
        src = open(f).read()
        if 'Remote' in src or 'rt_factor' in src: print('SKIP (remote/rt)', name); continue
        mod = importlib.import_module('tests.scenarios.' + name)
        for cache in (True, False):
            REF = Ref()
            w = RWorld(SIM_CONFIG, debug=True, cache=cache, skip_greetings=True)
            try:
                mod.test_scenario(w)
                ok = 'pass'
            except BaseException as e:
                ok = f'TESTFAIL {type(e).__name__}: {str(e)[:200]}'
            finally:
                try: w.shutdown()
                except Exception: pass
            tot += 1
            if REF.alarms or ok != 'pass':
                bad += 1
                print(name, 'cache', cache, ok, 'steps', REF.steps)
                for a in REF.alarms[:4]: print('    ', a)
    print('scenario runs', tot, 'with alarms/fail', bad)

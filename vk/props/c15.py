"""C15 API version adaptation."""
from vk import common
from vk.kernels import c15 as K


def run(rep, tier, seed, args):
    jobs = K.jobs(tier)
    rep.rule = ('one case = one path through World.start() (real init_and_get_adapter, LocalProxy.init, extract_version, adapters) and a 3-step run for one '
                'enumerated configuration (signature kind x number of version components x configured api_version kind x type present) with every '
                'version component an unbounded symbolic int >= 0; non-trivial = start() was reached; paths distinct (disjoint conditions on the components)')
    rep.bounds = {'version_components': '0 (no api_version) .. 3, each unbounded', 'signature kinds': sorted(K.KINDS),
                  'configured api_version': 'absent / the same / another version of 1-2 (thorough 3) symbolic components', 'run': 'until=3, producer + stub + current-version twin',
                  'outside': 'malformed version strings (non-digits, empty components), remote simulators (RemoteProxy.init)', 'crosshair': 'version strings of <= 5 characters, single-digit components'}
    rep.assumptions = ["version strings are structured objects whose split('.') yields components that a symbolic-aware int() (bound to the name int in mosaik.proxies and mosaik.adapters) maps to symbolic ints; CPython's str.split and int() are trusted; concrete replay uses real strings",
                       'list comparison of versions is executed for real (forks element-wise)',
                       'a v3 simulator without a type is rejected by ModelFactory; this is accepted by the oracle but is not one of the C15 rejection reasons']
    # second engine on version strings (DESIGN.md C15): CrossHair, the real extract_version + init_and_get_adapter on a symbolic str
    from vk.xcheck import crosshair_c15
    xr = crosshair_c15.run(timeout=90)
    rep.side['crosshair_version_strings'] = xr
    main, twin = xr['adapt_by_version_string'], xr['reach_twin']
    rep.notes.append('CrossHair 0.0.110 decides the adaptation class for every version string of <= 5 characters made of single digits separated by '
                     'single dots (real extract_version / init_and_get_adapter, string symbolic); its verdict is a side result, a counterexample string is '
                     'replayed by the harness string_case on the real code before it is reported; the reachability twin must be violated')
    if twin['verdict'] != 'counterexample':
        rep.notes.append(f"CrossHair reachability twin not violated ({twin['verdict']}): its verdict on version strings is not counted")
        rep.side['crosshair_version_strings']['counted'] = False
    if main['verdict'] == 'counterexample':
        jobs.append({'id': f"string|{main['example']}", 'harness': 'vk.kernels.c15:string_case', 'params': {'s': main['example']}})
    for s0 in ('3', '2.2', '2.1.9', '4.0', '0'):
        jobs.append({'id': f'string|{s0}', 'harness': 'vk.kernels.c15:string_case', 'params': {'s': s0}})
    rep.add_jobs(common.run_jobs(jobs))

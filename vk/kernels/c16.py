"""C16 kernel: asynchronous requests (set_data / get_data).  A (time-based, symbolic step sizes)
with 1-2 agents connected with async_requests=True; the agents are generator simulators that
yield set_data / get_data requests during their step, each preceded by a latency point whose
release the solver schedules like any other reply."""
from __future__ import annotations

import copy

import mosaik
import mosaik_api_v3
from mosaik.exceptions import ScenarioError
from mosaik_api_v3.connection import RemoteException

from vk import sysrun
from vk.engine import PathCut
from vk.sysrun import CTX


class AgentSim(sysrun.SymSim):
    """time-based agent; its step is a generator (as for simulators making async requests)."""

    def step(self, time, inputs, max_advance):
        eng = CTX['eng']
        K = CTX['K']
        k = self.n
        self.n += 1
        self.t = time
        if k >= K:
            raise PathCut(f'{self.sid} asked for more than {K} steps')
        mon = CTX['mon']
        target = CTX['targets'].get(self.sid, 'A')
        for j in range(CTX.get('requests_per_step', 1)):
            if not CTX.get('no_get') and eng.flag(f'{self.sid}.get{k}.{j}'):
                yield latency(self.sid)
                mon.request(self.sid, 'get', time)
                try:
                    data = yield self.mosaik.get_data({f'{target}.e': ['op']})
                except RemoteException as e:      # only behind the remote transport: the refusal arrives as a failure reply
                    mon.remote_refused(self.sid, 'get', time, e)
                    raise
                mon.got(self.sid, time, data)
            if CTX.get('concurrent') and eng.flag(f'{self.sid}.set2{k}.{j}'):
                # two requests in flight at once (a multi-agent simulator whose agents act concurrently): two source ids, one target
                import asyncio
                yield latency(self.sid)
                v1, v2 = f'{self.sid}#{k}.{j}', f'{self.sid}.f#{k}.{j}'
                mon.request(self.sid, 'set', time)
                try:
                    if eng.flag(f'{self.sid}.onecall{k}.{j}'):
                        # both agents' values in ONE set_data call (two source ids writing the same entity and attribute)
                        yield self.mosaik.set_data({f'{self.sid}.e': {f'{target}.e': {'im': v1}}, f'{self.sid}.f': {f'{target}.e': {'im': v2}}})
                    else:
                        yield asyncio.gather(self.mosaik.set_data({f'{self.sid}.e': {f'{target}.e': {'im': v1}}}),
                                             self.mosaik.set_data({f'{self.sid}.f': {f'{target}.e': {'im': v2}}}))
                except RemoteException as e:
                    mon.remote_refused(self.sid, 'set', time, e)
                    raise
                mon.did_set(self.sid, time, target, v1)
                mon.did_set(self.sid, time, target, v2, src=f'{self.sid}.f')
            elif eng.flag(f'{self.sid}.set{k}.{j}'):
                yield latency(self.sid)
                val = f'{self.sid}#{k}.{j}'
                mon.request(self.sid, 'set', time)
                try:
                    yield self.mosaik.set_data({f'{self.sid}.e': {f'{target}.e': {'im': val}}})
                except RemoteException as e:
                    mon.remote_refused(self.sid, 'set', time, e)
                    if not CTX.get('tolerant'):
                        raise
                    continue     # a tolerant agent notes the refusal and carries on
                mon.did_set(self.sid, time, target, val)
        if self.typ == 'event-based':
            return None     # an idle agent: stepped only when triggered
        d = eng.int(f'{self.sid}.d{k}', 1)
        if k == K - 1:
            eng.assume(time + d >= CTX['until'])
        return time + d


async def _latency(sid):
    loop = CTX['loop']
    if loop.active and sid not in CTX['sync']:
        await loop.park(sid, 'async-request')


def latency(sid):
    return _latency(sid)


class Monitor:
    def __init__(self, eng, agents, allowed):
        self.eng = eng
        self.pending = {}       # (target, src_full_id) -> value set and not yet delivered
        self.delivered = set()
        self.inflight = {}      # sid -> time of the step in flight
        self.agents = agents
        self.allowed = allowed  # agents that have an async connection
        self.refused_expected = []
        self.refusals = []      # failure replies received by remote agents
        self.nset = 0
        self.nsteps = 0
        self.a_begun = []
        self.a_next = 0          # time of A's next step as announced by its last reply (A is time-based)
        self.pending_time = {}

    def request(self, sid, kind, time):
        if sid not in self.allowed:
            self.refused_expected.append((sid, kind, time))

    def remote_refused(self, sid, kind, time, e):
        self.refusals.append((sid, kind, time, e.remote_type))

    def did_set(self, sid, time, target, val, src=None):
        self.nset += 1
        if sid not in self.allowed:
            self.eng.alarm('C16.notrefused', f'set_data by {sid} (no async_requests connection) was accepted')
            return
        key = (target, src or f'{sid}.e')
        if key in self.pending and target == 'A':
            # an undelivered value is about to be overwritten: fine if A has no step up to now (the agent is faster than A),
            # a lost value if A still has to perform a step at or before this time - that step was "A's next step" for the old value
            ta = self.inflight.get('A', self.a_next)
            if ta is not None and bool(ta <= time):
                self.eng.alarm('C16.lost', f'value {self.pending[key]} set by {sid} at {self.pending_time[key]} is overwritten at {time} before A performed its '
                               f'step at {ta}: it is never delivered', {'fp': ['lost']})
        self.pending[key] = val
        self.pending_time[key] = time

    def got(self, sid, time, data):
        if sid not in self.allowed:
            self.eng.alarm('C16.notrefused', f'get_data by {sid} (no async_requests connection) was answered: {data}')
            return
        ok = isinstance(data, dict) and 'op' in data.get('A.e', {})
        self.eng.check(ok, 'C16.get', f'get_data by {sid} at {time} returned {data}')

    def hook(self, ev, sid, f, payload):
        eng = self.eng
        if not CTX['loop'].active:
            return
        if ev == 'request' and f == 'step':
            time, inputs = payload[0], payload[1]
            self.nsteps += 1
            if sid == 'A':
                # (2) A must not begin a step later than t while an agent's step at t is unfinished
                for b, tb in self.inflight.items():
                    if b in self.allowed:
                        eng.check(time <= tb, 'C16.order', lambda: f'A begins step {time} while the step of {b} at {tb} is unfinished')
                # (1) exactly the values set since A's previous step, under the right source, once
                exp = {k[1]: v for k, v in self.pending.items() if k[0] == 'A'}
                got = {k: v for k, v in inputs.get('e', {}).get('im', {}).items() if k.split('.')[0] in self.allowed}
                foreign = {k: v for k, v in inputs.get('e', {}).get('im', {}).items() if k.split('.')[0] in self.agents and k.split('.')[0] not in self.allowed}
                if foreign:
                    eng.alarm('C16.notrefused', f'A@{time}: inputs carry {foreign}, set by an agent without an async_requests connection (its request was refused)',
                              {'fp': ['foreign']})
                if exp != got:
                    eng.alarm('C16.data', f'A@{time}: set_data values expected {exp}, inputs carry {got}', {'fp': ['data']})
                for k in [k for k in self.pending if k[0] == 'A']:
                    del self.pending[k]
            elif sid in self.allowed and self.a_begun:
                # ... and the other way round: an agent step at t that begins only now must not find A already past t
                ta = self.a_begun[-1]
                eng.check(ta <= time, 'C16.order', lambda: f'{sid} begins its step at {time} after A has already begun step {ta}')
            if sid == 'A':
                self.a_begun.append(time)
            self.inflight[sid] = time
        if ev == 'reply' and f == 'step':
            self.inflight.pop(sid, None)
            if sid == 'A':
                self.a_next = payload if (payload is not None and bool(payload < CTX['until'])) else None


def async_run(n_agents, unconnected, cfg, data_edge=False, triggered=False, feeder=False):
    """n_agents agents connected with async_requests; if `unconnected`, one more agent without such a connection
    (variant 'plain': connected by a normal data connection only; 'none': no connection at all)."""
    def h(eng):
        agents = ['B', 'C'][:n_agents]
        extra = 'X' if unconnected else None
        until = cfg.get('until', 3)
        remote = list(cfg.get('remote', ()))
        if remote:
            from vk import remote as R
            loop = R.MemLoop(eng, D=cfg.get('D', 0))
            R.SIM_CLASSES['2'] = AgentSim
            remote_ctx = R.patched
        else:
            import contextlib
            loop = sysrun.OracleLoop(eng, D=cfg.get('D', 0))
            remote_ctx = contextlib.nullcontext
        log = []
        mon = Monitor(eng, agents + ([extra] if extra else []), set(agents))
        CTX.clear()
        CTX.update(eng=eng, loop=loop, K=cfg.get('K', 2), until=until, ref=None, log=log, sync=set(cfg.get('sync', ())),
                   hook=mon.hook, mon=mon, targets={}, requests_per_step=cfg.get('requests_per_step', 1), bounded_times=True,
                   no_get=cfg.get('no_get', False), concurrent=cfg.get('concurrent', False), tolerant=cfg.get('tolerant', False))
        outcome, exc = None, None
        with sysrun.patched(salt=cfg.get('salt', 0)), remote_ctx():
            w = mosaik.World({'S': {'python': 'vk.sysrun:SymSim'}, 'G': {'python': 'vk.kernels.c16:AgentSim'},
                              'RS': {'connect': 'mem:1'}, 'RG': {'connect': 'mem:2'}}, skip_greetings=True,
                             asyncio_loop=loop, cache=cfg.get('cache', True))

            def kind_of(sid, base):
                return 'R' + base if sid in remote else base
            try:
                a = w.start(kind_of('A', 'S'), sim_id='A', typ='time-based').M()
                ents = {}
                if feeder:
                    # an ordinary persistent connection into the very attribute the agents write with set_data
                    if feeder == 'event':
                        # ... or an event (non-persistent output) of a hybrid simulator pushed into the same entity and attribute
                        fe = w.start('S', sim_id='F', typ='hybrid').M()
                        w.connect(fe, a, ('oe', 'im'))
                    else:
                        fe = w.start('S', sim_id='F', typ='time-based').M()
                        w.connect(fe, a, ('op', 'im'))
                if triggered:
                    # the agents are event-based and triggered by a separate clock simulator T
                    clock = w.start('S', sim_id='T', typ='time-based').M()
                for b in agents:
                    ents[b] = w.start(kind_of(b, 'G'), sim_id=b, typ='event-based' if triggered else 'time-based').M()
                    if triggered:
                        w.connect(clock, ents[b], ('op', 'it'))
                    if data_edge == 'shift':
                        w.connect(a, ents[b], ('op', 'im'), async_requests=True, time_shifted=True, initial_data={'op': 'I'})
                    elif data_edge:
                        w.connect(a, ents[b], ('op', 'im'), async_requests=True)
                    else:
                        w.connect(a, ents[b], async_requests=True)
                if extra:
                    ents[extra] = w.start(kind_of(extra, 'G'), sim_id=extra, typ='time-based').M()
                    if unconnected == 'plain':
                        w.connect(a, ents[extra], ('op', 'im'))
                loop.active = True
                try:
                    w.run(until=until, print_progress=False, lazy_stepping=cfg.get('lazy', True))
                    outcome = 'done'
                except sysrun.Deadlock:
                    outcome = 'deadlock'
                except sysrun.Livelock:
                    outcome = 'livelock'
                except ScenarioError as e:
                    outcome, exc = 'ScenarioError', e
                except (AssertionError, mosaik.exceptions.SimulationError) as e:
                    outcome, exc = 'exc:' + type(e).__name__, e
                finally:
                    loop.active = False
            finally:
                if not loop.is_closed():
                    loop.close()
        fp = [n_agents, unconnected]
        desc = f'agents={agents} extra={extra}({unconnected}) sync={cfg.get("sync")}' + (f' remote={remote}' if remote else '')
        if outcome == 'ScenarioError':
            eng.check(bool(mon.refused_expected), 'C16.refused', f'run() raised ScenarioError although every request came over an async_requests connection: {exc}: {desc}', {'fp': fp})
        elif outcome == 'done':
            # behind the remote transport the refusal reaches the simulator as a failure reply naming the error type
            got = [(s_, k_, t_) for s_, k_, t_, _ in mon.refusals]
            unrefused = [x for x in mon.refused_expected if x not in got]
            eng.check(not unrefused, 'C16.notrefused', f'requests {unrefused} without an async_requests connection were not refused: {desc}', {'fp': fp})
            wrong = [x for x in mon.refusals if x[3] != 'ScenarioError']
            eng.check(not wrong, 'C16.refused', f'requests were refused with {wrong}, not with ScenarioError: {desc}', {'fp': fp})
            spurious = [x for x in mon.refusals if x[:3] not in mon.refused_expected]
            eng.check(not spurious, 'C16.refused', f'requests over an async_requests connection were refused: {spurious}: {desc}', {'fp': fp})
            left = {k: v for k, v in mon.pending.items()}
            # values set after A's last step are never delivered; that is fine.  Nothing else to check at the end.
        else:
            eng.alarm('C16.run', f'run() ended with {outcome} {exc}: {desc}', {'fp': fp + [outcome]})
        return (outcome, {'nontrivial': mon.nset > 0 or bool(mon.refused_expected), 'sets': mon.nset, 'steps': mon.nsteps})
    return h


def jobs(tier):
    q = tier == 'quick'
    out = []

    def add(n_agents, unconnected, K, until, syncs, caches=(True, False), data_edge=False, rps=1, D=0, split=None, no_get=False, lazy=True,
            triggered=False, feeder=False, remote=(), concurrent=False, tolerant=False):
        for sync in syncs:
            for cache in caches:
                cfg = {'until': until, 'K': K, 'cache': cache, 'lazy': lazy, 'D': D, 'sync': sync, 'requests_per_step': rps, 'no_get': no_get}
                if remote:
                    cfg['remote'] = list(remote)
                if concurrent:
                    cfg['concurrent'] = True
                if tolerant:
                    cfg['tolerant'] = True
                j = {'id': ('' if not remote else f"remote={''.join(remote)}|") + ('conc|' if concurrent else '') + ('tol|' if tolerant else '') + f"async|n={n_agents}|x={unconnected}|K={K}|until={until}|sync={''.join(sync) or '-'}|cache={int(cache)}|de={data_edge if isinstance(data_edge, str) else int(data_edge)}|rps={rps}|D={D}|ng={int(no_get)}|lazy={int(lazy)}|trig={int(triggered)}|feed={feeder if isinstance(feeder, str) else int(feeder)}",
                     'harness': 'vk.kernels.c16:async_run',
                     'params': {'n_agents': n_agents, 'unconnected': unconnected, 'cfg': cfg, 'data_edge': data_edge, 'triggered': triggered, 'feeder': feeder},
                     'budget_s': 300}
                if split:
                    j['split_depth'] = split
                out.append(j)
    add(1, None, 3 if q else 4, 3 if q else 4, [[], ['A'], ['B'], ['A', 'B']])
    add(1, None, 3 if q else 4, 3 if q else 4, [[], ['A'], ['B'], ['A', 'B']], lazy=False)
    add(1, None, 2, 3, [[], ['A', 'B']], data_edge=True)
    add(1, None, 2, 3, [[], ['A', 'B']], data_edge=True, lazy=False)
    add(1, None, 2, 2, [[]], rps=2)
    add(2, None, 2, 2, [[], ['A', 'B', 'C']], caches=(True,), split=16, no_get=True)
    add(2, None, 2, 2, [['A', 'B', 'C'], ['A']], caches=(True,), split=16, no_get=True, lazy=False)
    if not q:
        add(2, None, 2, 3, [['B', 'C'], ['A', 'B', 'C']], split=16)
        add(2, None, 2, 2, [[], ['A']], split=16, no_get=True)        # until=3 / get_data requests do not finish within the budget with asynchronous agents
    # event-based agent without own steps, triggered by a clock simulator that may lag behind A
    add(1, None, 2, 3, [[], ['A'], ['A', 'B']], caches=(True,), lazy=False, triggered=True, no_get=True, split=16)
    add(1, None, 2, 3, [[], ['A', 'B', 'T']], caches=(True,), lazy=True, triggered=True, no_get=True, split=16)
    # a persistent source feeds the attribute the agent writes (sparse set_data calls must not be remembered)
    add(1, None, 3, 3, [['A', 'B', 'F'], ['F']], caches=(False, True), feeder=True, no_get=True)
    # an event of a third simulator is pushed into the entity and attribute the agent writes (cache on: no persistent inputs at A)
    add(1, None, 2, 3, [['A', 'B', 'F']], caches=(True,), feeder='event', no_get=True)
    # the async pair also carries a time-shifted data flow, A is held back by a (slow) feeder
    add(1, None, 3, 3, [['A', 'B'], ['B'], []], caches=(True,), feeder=True, data_edge='shift', no_get=True)
    add(1, 'none', 2, 2, [[], ['A', 'B', 'X']], caches=(True,))
    add(1, 'plain', 2, 2, [[], ['A', 'B', 'X']], caches=(True,))
    # the agent (and A) behind the in-memory remote transport: requests travel through RemoteProxy._handle_remote_requests
    add(1, None, 2, 3, [['A', 'B']], caches=(True,), remote=['B'])
    add(1, None, 2, 3, [['A', 'B']], caches=(False,), remote=['A', 'B'])
    add(1, 'none', 2, 2, [['A', 'B', 'X']], caches=(True,), remote=['X'])
    # a remote agent without an async connection that notes the refusal and carries on: nothing of the refused call may arrive
    add(1, 'none', 2, 3, [['A', 'B', 'X']], caches=(True,), remote=['X'], tolerant=True, no_get=True)
    add(1, 'plain', 2, 3, [['A', 'B', 'X']], caches=(False,), remote=['X'], tolerant=True, no_get=True)
    # two set_data requests of one simulator in flight at once (two source ids)
    add(1, None, 2, 3, [['A', 'B']], caches=(True,), remote=['B'], concurrent=True, no_get=True)
    add(1, None, 2, 3, [[]], caches=(True,), concurrent=True, no_get=True)
    if not q:
        add(1, None, 2, 3, [['A', 'B']], remote=['A', 'B'], concurrent=True)
        add(1, None, 2, 3, [['A'], ['B']], concurrent=True, lazy=False)
        add(1, None, 3, 3, [['A', 'B']], remote=['B'])
        add(1, None, 3, 3, [['A', 'B']], remote=['A', 'B'], lazy=False)
        add(1, None, 2, 3, [['B'], []], caches=(True,), remote=['B'])
        add(1, 'plain', 2, 2, [['A', 'B', 'X']], caches=(True,), remote=['X'])
        add(2, None, 2, 2, [['A', 'B', 'C']], caches=(True,), remote=['B', 'C'], no_get=True, split=16)
        add(1, None, 2, 3, [['A', 'B', 'T']], caches=(True,), remote=['B'], triggered=True, no_get=True, split=16)
    if not q:
        add(1, None, 3, 3, [[]], D=1)
        add(2, None, 2, 3, [['A'], ['A', 'B', 'C']], split=18, no_get=True, lazy=False)
    return out

"""Supporting lemmas (DESIGN.md 3.6): single operations of scheduler data structures run from an
ARBITRARY symbolic state (one inductive step instead of a history).  The pre-states are built only
from constraints that every reachable state satisfies trivially (distinct heap entries in heap order,
buffer contents produced by real add() calls, p0 <= p1, non-negative times), so a counterexample is
replayed concretely like any other and reported under `<prop>.lemma.*`."""
from __future__ import annotations

import asyncio
import heapq

import z3

from vk.engine import term
from vk.tt import b_and, b_or, b_not, lex_lt, lex_le, t_eq


def _tt(eng, name, depth):
    from mosaik.tiered_time import TieredTime
    return TieredTime(*[eng.int(f'{name}.{i}', 0) for i in range(depth)])


def _runner(depth=1, typ='event-based'):
    """a SimRunner without a simulator behind it"""
    from mosaik.simmanager import SimRunner

    class P:
        meta = {'type': typ}
    return SimRunner('X', P(), depth=depth)


def schedule_step(n, depth):
    """C02 lemma: SimRunner.schedule_step on an arbitrary heap of n distinct tiered times."""
    def h(eng):
        loop = asyncio.new_event_loop()
        asyncio.set_event_loop(loop)
        try:
            sim = _runner(depth)
            items = [_tt(eng, f'h{i}', depth) for i in range(n)]
            # arbitrary VALID state: distinct entries (schedule_step never inserts duplicates) in heap order
            for i in range(n):
                for j in range(i + 1, n):
                    eng.assume(b_not(t_eq(items[i].tiers, items[j].tiers)))
            for i in range(1, n):
                eng.assume(lex_le(items[(i - 1) // 2].tiers, items[i].tiers))
            sim.next_steps = list(items)
            sim.newer_step.clear()
            new = _tt(eng, 'new', depth)
            before = list(sim.next_steps)
            old_min = before[0] if before else None
            sim.schedule_step(new)
            after = sim.next_steps
            fp = [n, depth]
            present = [x for x in after if bool(x == new)]
            eng.check(len(present) == 1, 'C02.lemma.schedule_once', f'after schedule_step the time occurs {len(present)} times', {'fp': fp})
            was_there = any(bool(x == new) for x in before)
            eng.check(len(after) == len(before) + (0 if was_there else 1), 'C02.lemma.schedule_size', 'heap size wrong', {'fp': fp})
            for x in before:
                eng.check(any(y is x for y in after), 'C02.lemma.schedule_keep', 'an already scheduled step was dropped', {'fp': fp})
            for i in range(1, len(after)):
                eng.check(lex_le(after[(i - 1) // 2].tiers, after[i].tiers), 'C02.lemma.schedule_heap', 'heap property broken', {'fp': fp})
            is_new_min = (old_min is None) or bool(new < old_min)
            eng.check(sim.newer_step.is_set() == (is_new_min and not was_there), 'C02.lemma.schedule_wake',
                      f'newer_step set={sim.newer_step.is_set()} but the new step is{"" if is_new_min else " not"} the new minimum', {'fp': fp})
        finally:
            loop.close()
        return ('ok', {'nontrivial': True})
    return h


def input_buffer(n):
    """C03 lemma: TimedInputBuffer.add + get_input on an arbitrary queue of n entries (symbolic times, two possible slots)."""
    def h(eng):
        from mosaik.simmanager import TimedInputBuffer
        buf = TimedInputBuffer()
        entries = []
        for i in range(n):
            t = eng.int(f't{i}', 0)
            slot = eng.choose(2, f'slot{i}')
            buf.add(t, 'S', f'e{slot}', 'd', 'a', f'v{i}')
            entries.append((t, slot, f'v{i}'))
        step = eng.int('step', 0)
        got = buf.get_input({}, step)
        fp = [n]
        # expected: per slot the value of the due entry with the largest (time, insertion index)
        for slot in (0, 1):
            due = [(t, i, v) for i, (t, s, v) in enumerate(entries) if s == slot and bool(t <= step)]
            observed = got.get('d', {}).get('a', {}).get(f'S.e{slot}')
            if not due:
                eng.check(observed is None, 'C03.lemma.buffer_notdue', f'value {observed} delivered although nothing is due', {'fp': fp})
            else:
                best = due[0]
                for x in due[1:]:
                    if bool(x[0] > best[0]) or (bool(x[0] == best[0]) and x[1] > best[1]):
                        best = x
                eng.check(observed == best[2], 'C03.lemma.buffer_latest', f'delivered {observed}, expected the latest due value {best[2]}', {'fp': fp})
        rest = sorted(x[5] for x in buf.input_queue)
        exp_rest = sorted(v for (t, s, v) in entries if not bool(t <= step))
        eng.check(rest == exp_rest, 'C03.lemma.buffer_rest', f'entries left in the buffer {rest}, expected {exp_rest}', {'fp': fp})
        # a second call with the same step delivers nothing more
        again = buf.get_input({}, step)
        eng.check(again == {}, 'C03.lemma.buffer_once', f'second get_input delivered {again}', {'fp': fp})
        return ('ok', {'nontrivial': True})
    return h


def progress_waiters(depth, kind):
    """C05 lemma: Progress.set wakes exactly the satisfied waiters; a satisfied condition stays satisfied as progress grows."""
    def h(eng):
        from mosaik.progress import Progress
        from mosaik.tiered_time import TieredInterval
        loop = asyncio.new_event_loop()
        asyncio.set_event_loop(loop)
        try:
            p0 = _tt(eng, 'p0', depth)
            p1 = _tt(eng, 'p1', depth)
            eng.assume(lex_le(p0.tiers, p1.tiers))
            target = _tt(eng, 'target', depth)
            shift = TieredInterval(*[eng.int(f'shift.{i}', 0) for i in range(depth)], cutoff=depth, pre_length=depth)
            prog = Progress(p0)
            needs_to_pass = kind == 'passed'
            coro = prog.has_passed(target, shift=shift) if needs_to_pass else prog.has_reached(target, shift=shift)
            task = loop.create_task(coro)
            loop.run_until_complete(asyncio.sleep(0))
            at0 = (p0 + shift).tiers
            sat0 = lex_lt(target.tiers, at0) if needs_to_pass else lex_le(target.tiers, at0)
            fp = [depth, kind]
            eng.check(b_or(b_and(sat0, task.done()), b_and(b_not(sat0), not task.done())), 'C05.lemma.progress_immediate',
                      f'waiter done={task.done()} right after registration', {'fp': fp})
            prog.set(p1)
            loop.run_until_complete(asyncio.sleep(0))
            at1 = (p1 + shift).tiers
            sat1 = lex_lt(target.tiers, at1) if needs_to_pass else lex_le(target.tiers, at1)
            eng.check(b_or(b_and(sat1, task.done()), b_and(b_not(sat1), not task.done())), 'C05.lemma.progress_wake',
                      f'waiter done={task.done()} after set()', {'fp': fp})
            eng.check(b_or(b_not(sat0), sat1), 'C05.lemma.progress_monotone', 'a satisfied wait became unsatisfied as progress grew', {'fp': fp})
            eng.check(len(prog._futures) == (0 if task.done() else 1), 'C05.lemma.progress_list', 'waiter list out of sync', {'fp': fp})
            if not task.done():
                task.cancel()
                loop.run_until_complete(asyncio.sleep(0))
        finally:
            loop.close()
        return ('ok', {'nontrivial': True})
    return h


def max_advance(n_anc):
    """C07 lemma: get_max_advance from an arbitrary state: result <= until, < own next step, < every triggering ancestor's next or
    in-flight step plus distance."""
    def h(eng):
        from mosaik import scheduler
        from mosaik.tiered_time import TieredInterval

        class W:
            pass
        loop = asyncio.new_event_loop()
        asyncio.set_event_loop(loop)
        try:
            sim = _runner(1)
            until = eng.int('until', 1)
            bounds = []
            if eng.flag('own_next'):
                t = _tt(eng, 'own', 1)
                sim.next_steps = [t]
                bounds.append(t.tiers[0])
            for i in range(n_anc):
                a = _runner(1)
                dist = TieredInterval(eng.int(f'dist{i}', 0))
                mode = eng.choose(3, f'anc{i}')     # 0: scheduled step, 1: in flight, 2: idle
                if mode == 0:
                    t = _tt(eng, f'anc{i}.next', 1)
                    a.next_steps = [t]
                    bounds.append(t.tiers[0] + dist.tiers[0])
                elif mode == 1:
                    t = _tt(eng, f'anc{i}.cur', 1)
                    a.current_step = t
                    bounds.append(t.tiers[0] + dist.tiers[0])
                sim.triggering_ancestors[a] = dist
            m = scheduler.get_max_advance(W(), sim, until)
            fp = [n_anc]
            eng.check(m <= until, 'C07.lemma.until', f'max_advance {m} > until', {'fp': fp})
            for b in bounds:
                eng.check(m < b, 'C07.lemma.bound', f'max_advance {m} not below a possible trigger/own step at {b}', {'fp': fp})
            # and it is not needlessly small: equal to until or to one of the bounds - 1
            eng.check(b_or(m == until, *[m == b - 1 for b in bounds]), 'C07.lemma.tight', f'max_advance {m} is neither until nor a bound-1', {'fp': fp})
        finally:
            loop.close()
        return ('ok', {'nontrivial': True})
    return h


def jobs(prop, tier):
    q = tier == 'quick'
    out = []
    if prop == 'C02':
        for n in (0, 1, 2, 3) + (() if q else (4,)):
            for depth in (1, 2):
                out.append({'id': f'lemma.schedule_step|n={n}|depth={depth}', 'harness': 'vk.kernels.lemmas:schedule_step', 'params': {'n': n, 'depth': depth}})
    if prop == 'C03':
        for n in (1, 2, 3) + (() if q else (4,)):
            out.append({'id': f'lemma.input_buffer|n={n}', 'harness': 'vk.kernels.lemmas:input_buffer', 'params': {'n': n}})
    if prop == 'C05':
        for depth in (1, 2) + (() if q else (3,)):
            for kind in ('passed', 'reached'):
                out.append({'id': f'lemma.progress|depth={depth}|{kind}', 'harness': 'vk.kernels.lemmas:progress_waiters', 'params': {'depth': depth, 'kind': kind}})
    if prop == 'C07':
        for n in (0, 1, 2) + (() if q else (3,)):
            out.append({'id': f'lemma.max_advance|anc={n}', 'harness': 'vk.kernels.lemmas:max_advance', 'params': {'n_anc': n}})
    return out

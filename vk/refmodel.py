"""Reference semantics of a mosaik run in tiered time, fed from the request/reply log at
the simulator API boundary, plus the monitors for C01 C02 C03 C07 C10 (DESIGN.md 3.4).

The model needs no scheduler of its own: a step begin of X at main time t is matched
with X's least outstanding demand.  Times are tuples whose entries may be symbolic
ints; rules are handed to the engine as terms (engine.check) wherever possible so that
the monitor forks only where bookkeeping needs a decision.
"""
from __future__ import annotations

from vk.tt import b_and, b_or, b_not, b_implies, lex_le, lex_lt, t_eq, fmt

SENT = object()


NONE_EVENT = '<event with value None>'


class Demand:
    __slots__ = ('tau', 'causes')

    def __init__(self, tau, causes):
        self.tau = tau
        self.causes = causes


class Step:
    __slots__ = ('id', 'sid', 'tau', 'max_advance', 'past', 'index', 'inputs')

    def __init__(self, id, sid, tau, max_advance, past, index):
        self.id, self.sid, self.tau, self.max_advance, self.past, self.index = id, sid, tau, max_advance, past, index


class RSim:
    def __init__(self, sid, path):
        self.sid = sid
        self.path = list(path)
        self.depth = len(path)
        self.type = None
        self.demands = []      # list[Demand]
        self.done = []         # list[Step] begun so far, in order
        self.inflight = None   # Step or None
        self.requested_output = False


class Conn:
    def __init__(self, **kw):
        self.__dict__.update(kw)
        self.produced = []     # (tout, value, seq, step)
        self.delivered = set()
        self.delivered_main = set()


class Ref:
    def __init__(self, eng, rules=('C01', 'C02', 'C03', 'C07', 'C10'), lazy=True):
        self.eng = eng
        self.rules = set(rules)
        self.lazy = lazy
        self.sims = {}
        self.conns = []
        self.until = None
        self.seq = 0
        self.nsteps = 0
        self.counts = {'C01': 0, 'C02': 0, 'C03': 0, 'C07': 0, 'C10': 0}
        self.trace = []
        self.prefix = ''       # e.g. 'C11.' when the run belongs to another property's check
        self.evals = {}        # rule evaluations including those that are trivially true (concrete values)

    # -- helpers -----------------------------------------------------------
    def on(self, r):
        return r in self.rules

    def check(self, prop, cond, rule, msg, extra=None):
        if prop not in self.rules:
            return True
        self.evals[prop] = self.evals.get(prop, 0) + 1
        if cond is True:
            return True
        self.counts[prop] += 1
        return self.eng.check(cond, self.prefix + rule, msg, extra)

    def alarm(self, prop, rule, msg, extra=None):
        if prop not in self.rules:
            return
        self.counts[prop] += 1
        self.eng.alarm(self.prefix + rule, msg, extra)

    def zeros(self, s, t):
        return (t,) + (0,) * (s.depth - 1)

    # -- scenario description ---------------------------------------------
    def add_sim(self, sid, path, typ):
        s = RSim(sid, path)
        s.type = typ
        self.sims[sid] = s
        if typ != 'event-based':
            s.demands.append(Demand((0,) * s.depth, [('init',)]))

    def initial_event(self, sid, t):
        # the statement lists time 0 of time-based / hybrid simulators AND initial events: an initial event adds a demand, it does not
        # replace the ones already there (several initial events for one simulator are several demands)
        s = self.sims[sid]
        tau = self.zeros(s, t)
        if not any(d.tau == tau for d in s.demands):
            s.demands.append(Demand(tau, [('init',)]))

    def add_conn(self, ss, se, sa, ds, de, da, k=0, weak=False, initial=SENT, persistent=True, trigger=False,
                 lenient=False, async_only=False):
        c = Conn(ss=ss, se=se, sa=sa, ds=ds, de=de, da=da, k=k, weak=bool(weak), initial=initial,
                 persistent=persistent, trigger=trigger, lenient=lenient, async_only=async_only)
        sp, dp = self.sims[ss].path, self.sims[ds].path
        n = 0
        while n < min(len(sp), len(dp)) and sp[n] == dp[n]:
            n += 1
        c.common = n
        self.conns.append(c)
        if not async_only:
            self.sims[ss].requested_output = True
        return c

    def shift(self, c, tau, plain=False):
        """destination time of an output produced at source time tau."""
        n = c.common
        t = list(tau[:n])
        if not plain:
            t[0] = t[0] + c.k
            if c.weak:
                t[n - 1] = t[n - 1] + 1
        return tuple(t) + (0,) * (self.sims[c.ds].depth - n)

    # -- run-time events --------------------------------------------------
    def least_demand(self, s):
        best = None
        for d in s.demands:
            if best is None or bool(lex_lt(d.tau, best.tau)):
                best = d
        return best

    def on_step_begin(self, sid, time, inputs, max_advance):
        s = self.sims[sid]
        self.nsteps += 1
        d = self.least_demand(s)
        if d is None:
            self.alarm('C02', 'C02.spurious', f'{sid} stepped at {time} without any demand')
            tau, causes = self.zeros(s, time), []
        else:
            tau, causes = d.tau, d.causes
            ok = self.check('C02', tau[0] == time, 'C02.wrongtime',
                            lambda: f'{sid} stepped at {time} but its least demand is {fmt(tau)}; demands {[fmt(x.tau) for x in s.demands]}')
            if ok:
                s.demands.remove(d)
            else:
                tau, causes = self.zeros(s, time), []
        if s.done:
            self.check('C02', lex_lt(s.done[-1].tau, tau), 'C02.order',
                       lambda: f'{sid} stepped at {fmt(tau)} after {fmt(s.done[-1].tau)}')
        self.check('C02', b_and(0 <= time, time < self.until), 'C02.range', lambda: f'{sid} stepped at {time}, until {self.until}')
        past = set()
        for cz in causes:
            if cz[0] in ('self', 'trig'):
                st = cz[1]
                past.add(st.id)
                past |= st.past
        step = Step(self.nsteps, sid, tau, max_advance, past, len(s.done))
        step.inputs = inputs
        self.trace.append(('begin', sid, fmt(tau), max_advance))

        # C10 lazy stepping
        if self.on('C10') and self.lazy:
            for c in self.conns:
                if c.ss == sid and c.ds != sid:
                    b = self.sims[c.ds]
                    lim = self.shift(c, tau, plain=True)
                    outstanding = [x.tau for x in b.demands] + ([b.inflight.tau] if b.inflight is not None else [])
                    for tb in outstanding:
                        self.check('C10', b_not(b_and(lex_lt(tb, lim), tb[0] < self.until)), 'C10.runahead',
                                   lambda: f'{sid}@{fmt(tau)} begins while consumer {c.ds} has outstanding step {fmt(tb)}')
        # C07 promise windows
        if self.on('C07'):
            for prev in s.done:
                te, m = prev.tau, prev.max_advance
                in_window = b_and(te[0] < time, time <= m)
                if in_window is False:
                    continue
                for cz in causes:
                    ok = False
                    if cz[0] == 'self':
                        ok = lex_le(te, cz[1].tau) if cz[1].sid == sid else False
                    elif cz[0] == 'trig':
                        st = cz[1]
                        anc = [st] + [x for x in self._steps if x.id in st.past]
                        ok = b_or(*[lex_le(te, x.tau) for x in anc if x.sid == sid])
                    self.check('C07', b_implies(in_window, ok), 'C07.external',
                               lambda: f'{sid}@{fmt(tau)} lies within the promise ({fmt(te)}, {m}] but is caused by {self._cz(cz)}')
            self.check('C07', max_advance <= self.until, 'C07.until', lambda: f'{sid} max_advance {max_advance} > until {self.until}')
            has_trig = any(c.ds == sid and c.trigger for c in self.conns)
            # an initial event that is still outstanding is a step "for a reason outside its own control" as well: the first clause
            # of the statement then forbids the promise to reach it, so the "equals until" clause is only evaluated without one
            # (likewise a step the simulator scheduled for itself BEFORE this step, which an initial event has overtaken)
            ext_pending = bool(s.demands)
            if not has_trig and not ext_pending:
                self.check('C07', max_advance == self.until, 'C07.notrigger',
                           lambda: f'{sid} has no trigger input but max_advance {max_advance} != until {self.until}')
        # C01 causal readiness
        if self.on('C01'):
            for c in self.conns:
                if c.ds == sid and c.ss != sid:
                    a = self.sims[c.ss]
                    if a.inflight is not None:
                        self.check('C01', b_not(lex_le(self.shift(c, a.inflight.tau), tau)), 'C01.inflight',
                                   lambda: f'{sid}@{fmt(tau)} begun while {c.ss}@{fmt(a.inflight.tau)} is in flight '
                                           f'(its output is due at {fmt(self.shift(c, a.inflight.tau))})')
                if c.ss == sid and c.ds != sid:
                    x = self.sims[c.ds]
                    due = self.shift(c, tau)
                    for st in x.done:
                        self.check('C01', lex_lt(st.tau, due), 'C01.late',
                                   lambda: f'{sid}@{fmt(tau)} stepped after its consumer {c.ds} began {fmt(st.tau)} (output due at {fmt(due)})')
        # C03 data-flow fidelity
        if self.on('C03'):
            self.check_inputs(s, tau, inputs)
        s.inflight = step
        s.done.append(step)
        self._steps.append(step)
        return step

    _steps = None

    def _cz(self, cz):
        if cz[0] == 'init':
            return 'init'
        return f'{cz[0]} of {cz[1].sid}@{fmt(cz[1].tau)}'

    def expected_inputs(self, s, tau, main_only=False):
        """reference data model for a step of s at tau.  main_only=True evaluates the same rules with every sub-time
        tier ignored (used only to classify a mismatch as known finding P11)."""
        sid = s.sid
        exp = {}
        skip = set()
        for c in self.conns:
            if c.ds != sid or c.async_only:
                continue
            key = f"{c.ss}.{c.se}"
            slot = (c.de, c.da, key)
            if c.lenient:
                skip.add(slot)
                continue
            delivered = c.delivered_main if main_only else c.delivered

            def due(to):
                d = self.shift(c, to)
                if main_only:
                    return bool(d[0] <= tau[0])
                return bool(lex_le(d, tau))
            if c.persistent:
                val = None if c.initial is SENT else c.initial
                best = -1
                for (to, v, seq, st) in c.produced:
                    if seq > best and due(to):
                        best, val = seq, v
                if val is not None:
                    exp[slot] = val
            else:
                best = -1
                val = None
                # initial data of an event connection: one value, due at time 0, delivered once like every other event
                if c.initial is not SENT and 'init' not in delivered:
                    delivered.add('init')
                    best, val = -0.5, c.initial       # superseded by any produced value that is due at the same step
                for (to, v, seq, st) in c.produced:
                    if seq in delivered:
                        continue
                    if due(to):
                        delivered.add(seq)
                        if seq > best:
                            best, val = seq, v
                if best > -1:
                    exp[slot] = val
        for slot in skip:
            exp.pop(slot, None)
        return exp, skip

    def check_inputs(self, s, tau, inputs):
        sid = s.sid
        exp, skip = self.expected_inputs(s, tau)
        exp_main, _ = self.expected_inputs(s, tau, main_only=True)
        got = {}
        ev_slots = {(c.de, c.da, f"{c.ss}.{c.se}") for c in self.conns if c.ds == sid and not c.persistent} - \
                   {(c.de, c.da, f"{c.ss}.{c.se}") for c in self.conns if c.ds == sid and c.persistent}
        for eid, attrs in inputs.items():
            for attr, srcs in attrs.items():
                for src, v in srcs.items():
                    if (eid, attr, src) in skip:
                        continue
                    if v is not None:
                        got[(eid, attr, src)] = v
                    elif (eid, attr, src) in ev_slots:
                        got[(eid, attr, src)] = NONE_EVENT
        self.counts['C03'] += 1
        self.evals['C03'] = self.evals.get('C03', 0) + 1
        if exp != got:
            bad = sorted(set(k for k in set(exp) | set(got) if exp.get(k) != got.get(k)))
            ckinds = sorted({self.kind(c) for c in self.conns if c.ds == sid and (c.de, c.da, f"{c.ss}.{c.se}") in bad})
            self.eng.alarm(self.prefix + 'C03.inputs', f'{sid}@{fmt(tau)}: expected {self._show(exp)} got {self._show(got)}',
                           {'conn_kinds': ckinds, 'weak_only': bool(ckinds) and all('weak' in k for k in ckinds),
                            'subtime_only': got == exp_main and len(tau) > 1,
                            'fp': ['C03.inputs', ckinds, got == exp_main and len(tau) > 1]})

    @staticmethod
    def _show(d):
        return {f'{k[0]}.{k[1]}<-{k[2]}': v for k, v in sorted(d.items())}

    def kind(self, c):
        ks = []
        if c.weak:
            ks.append('weak')
        if not (type(c.k) is int and c.k == 0):
            ks.append('shifted')
        ks.append('persistent' if c.persistent else 'event')
        ks.append('trigger' if c.trigger else 'nontrigger')
        return '-'.join(ks)

    def on_step_end(self, sid, nxt):
        s = self.sims[sid]
        st = s.inflight
        self.trace.append(('end', sid, nxt))
        if nxt is not None and isinstance(nxt, int) and not isinstance(nxt, bool) and bool(nxt < self.until):
            self.add_demand(s, self.zeros(s, nxt), ('self', st))
        if not s.requested_output:
            s.inflight = None

    def add_demand(self, x, due, cause):
        # already demanded?
        for d in x.demands:
            if bool(t_eq(d.tau, due)):
                d.causes.append(cause)
                return
        # already executed (or being executed)?  then it is a late demand unless it is the very same time
        for st in x.done:
            if bool(t_eq(st.tau, due)):
                # a demand for a time whose step has already begun: the step cannot have seen this cause
                self.alarm('C02', 'C02.latedemand', f'{x.sid} gets a demand for {fmt(due)} from {self._cz(cause)} after that step began')
                return
        if x.done:
            ok = self.check('C02', lex_lt(x.done[-1].tau, due), 'C02.latedemand',
                            lambda: f'{x.sid} gets a demand for {fmt(due)} from {self._cz(cause)} after it began {fmt(x.done[-1].tau)}')
            if not ok:
                return
        x.demands.append(Demand(due, [cause]))
        # C10 applied to the step that is now known to be outstanding: no simulator feeding X may already have begun a later step
        if self.on('C10') and self.lazy:
            for c in self.conns:
                if c.ds == x.sid and c.ss != x.sid and not c.async_only:
                    p = self.sims[c.ss]
                    for st in p.done:
                        lim = self.shift(c, st.tau, plain=True)
                        self.check('C10', b_not(b_and(lex_lt(due, lim), due[0] < self.until)), 'C10.runahead',
                                   lambda: f'{x.sid} has to step at {fmt(due)} ({self._cz(cause)}) but its producer {c.ss} has already begun {fmt(st.tau)}')
        # C01, second sentence, applied to the step that is now known to be required: X will have to step at `due`, so no
        # simulator it feeds may already have begun a step at or after the delayed output time of that step
        if self.on('C01'):
            for c in self.conns:
                if c.ss == x.sid and c.ds != x.sid and not c.async_only:
                    y = self.sims[c.ds]
                    ydue = self.shift(c, due)
                    for st in y.done:
                        self.check('C01', lex_lt(st.tau, ydue), 'C01.late',
                                   lambda: f'{x.sid} must still step at {fmt(due)} ({self._cz(cause)}) but its consumer {c.ds} has already begun {fmt(st.tau)} (output due at {fmt(ydue)})')

    def on_get_data_end(self, sid, data):
        s = self.sims[sid]
        st = s.inflight
        if st is None:
            # outputs were requested from a simulator that, as far as the scenario description goes, feeds nobody
            self.alarm('C02', 'C02.unexpected_get_data', f'{sid} was asked for outputs {sorted(data)} although no connection leaves it')
            return
        tau = st.tau
        ot = data.get('time', tau[0])
        if type(ot) is int and type(tau[0]) is int:
            same = ot == tau[0]
        else:
            same = bool(ot == tau[0])
        tout = tau if same else self.zeros(s, ot)
        self.trace.append(('data', sid, fmt(tout), sorted(k for k in data if k != 'time')))
        for c in self.conns:
            if c.ss != sid or c.async_only:
                continue
            if c.se in data and c.sa in data[c.se]:
                self.seq += 1
                v = data[c.se][c.sa]
                if v is None and not c.persistent:
                    v = NONE_EVENT      # an event whose value is None is still an event (for persistent outputs None means "no value")
                c.produced.append((tout, v, self.seq, st))
                if c.trigger:
                    due = self.shift(c, tout)
                    if bool(due[0] < self.until):
                        self.add_demand(self.sims[c.ds], due, ('trig', st))
        s.inflight = None

    def on_end(self):
        if not self.on('C02'):
            return
        for sid, s in self.sims.items():
            for d in s.demands:
                self.check('C02', b_not(d.tau[0] < self.until), 'C02.lost',
                           lambda: f'{sid}: demanded step {fmt(d.tau)} ({[self._cz(c) for c in d.causes]}) was never executed')

    def start(self, until):
        self.until = until
        self._steps = []

#!/bin/bash
# Regression of the machinery against the kept seeded changes.
#   tools/run_seeds.sh [seed ids...]        (default: all under seeded/)
# Each seed is applied to a scratch copy of the repository (never to /repo), its own property's quick check is run
# against that copy (VK_REPO), and the copy is removed.  Prints one line per seed; exit 0 iff every seed is caught.
HERE="$(cd "$(dirname "$0")/.." && pwd)"
cd "$HERE"
SEEDS="$@"; [ -z "$SEEDS" ] && SEEDS=$(ls seeded)
CHECKS="${CHECKS:-}"
rc=0
for s in $SEEDS; do
  prop=$(python3 -c "import json;print(json.load(open('seeded/$s/meta.json'))['breaks_property'])")
  W=$(mktemp -d /tmp/vkseed.XXXXXX)
  git -C /repo worktree add -q --detach "$W/r" HEAD || { echo "$s: cannot create worktree"; rc=2; continue; }
  if ! git -C "$W/r" apply "$HERE/seeded/$s/patch.diff"; then echo "$s: patch does not apply"; rc=2; else
    for c in ${CHECKS:-$prop}; do
      VK_REPO="$W/r" VK_OUT="$W/o" ./run_check.sh "$c" quick > "$W/out" 2>&1; e=$?
      n=$(grep -c '^VIOLATION' "$W/out")
      echo "seed $s (breaks $prop) check $c: exit=$e violations=$n $(grep -m1 'rule=' "$W/out" | cut -c1-160)"
      [ "$c" = "$prop" ] && [ $e -ne 1 ] && rc=1
    done
  fi
  git -C /repo worktree remove --force "$W/r"; rm -rf "$W"
done
exit $rc

"""Probe: minimal symbolic executor by re-execution (DFS over branch decisions, z3)."""
import z3, time

class Abort(BaseException):
    pass

class Engine:
    def __init__(self):
        self.solver = z3.Solver()
        self.prefix = []      # decisions to replay: list of (choice_index)
        self.trace = []       # decisions taken in this run: [ (n_options_feasible_list, chosen) ]
        self.pos = 0
        self.nvars = 0
        self.solver_calls = 0
        self.paths = 0
        self.cur = None

    # ---- symbolic value creation
    def fresh_int(self, name, lo=None, hi=None):
        v = z3.Int(f"{name}#{self.nvars}"); self.nvars += 1
        if lo is not None: self.assume_expr(v >= lo)
        if hi is not None: self.assume_expr(v <= hi)
        return SymInt(v)

    def fresh_bool(self, name):
        v = z3.Bool(f"{name}#{self.nvars}"); self.nvars += 1
        return SymBool(v)

    def assume_expr(self, e):
        self.solver.add(e)

    def feasible(self, e):
        self.solver_calls += 1
        self.solver.push(); self.solver.add(e)
        r = self.solver.check()
        self.solver.pop()
        assert str(r) != 'unknown'
        return str(r) == 'sat'

    # ---- decisions
    def decide(self, conds):
        """conds: list of z3 bool exprs, mutually exclusive & exhaustive. returns chosen index."""
        if self.pos < len(self.prefix):
            feas, chosen = self.prefix[self.pos]
            self.trace.append((feas, chosen))
        else:
            feas = [i for i, c in enumerate(conds) if self.feasible(c)]
            assert feas, "no feasible branch"
            chosen = feas[0]
            self.trace.append((feas, chosen))
        self.pos += 1
        if len(feas) > 1:
            self.solver.add(conds[chosen])
        return chosen

    def branch(self, e):
        e = z3.simplify(e)
        if z3.is_true(e): return True
        if z3.is_false(e): return False
        return self.decide([e, z3.Not(e)]) == 0

    def concretize(self, e, lo=0, hi=8):
        e = z3.simplify(e)
        if z3.is_int_value(e): return e.as_long()
        conds = [e == v for v in range(lo, hi + 1)]
        return lo + self.decide(conds)

    def choose(self, n):
        if n == 1: return 0
        c = self.fresh_int('choice', 0, n - 1)
        return self.concretize(c.e, 0, n - 1)

    def check(self, e, what):
        """assert-style: report if not(e) feasible."""
        e = z3.simplify(e)
        if z3.is_true(e): return
        self.solver_calls += 1
        self.solver.push(); self.solver.add(z3.Not(e))
        r = str(self.solver.check())
        m = self.solver.model() if r == 'sat' else None
        self.solver.pop()
        if r == 'sat':
            raise Violation(what, m)
        self.solver.add(e)

    # ---- exploration
    def explore(self, fn, max_paths=10**9, budget_s=10**9):
        t0 = time.time()
        self.prefix = []
        results = []
        while True:
            self.solver.reset(); self.trace = []; self.pos = 0; self.nvars = 0
            try:
                results.append(('ok', fn(self)))
            except Violation as v:
                results.append(('violation', v))
            except Abort:
                results.append(('abort', None))
            self.paths += 1
            # backtrack
            tr = self.trace
            while tr:
                feas, chosen = tr[-1]
                idx = feas.index(chosen)
                if idx + 1 < len(feas):
                    tr[-1] = (feas, feas[idx + 1]); break
                tr.pop()
            if not tr or self.paths >= max_paths or time.time() - t0 > budget_s:
                return results, (not tr)
            self.prefix = list(tr)

class Violation(Exception):
    def __init__(self, what, model):
        super().__init__(what); self.what = what; self.model = model

ENGINE = None

def _e(x):
    if isinstance(x, SymInt): return x.e
    if isinstance(x, bool): return z3.IntVal(int(x))
    if isinstance(x, int): return z3.IntVal(x)
    return None

class SymBool:
    __slots__ = ('e',)
    def __init__(self, e): self.e = e
    def __bool__(self): return ENGINE.branch(self.e)
    def __repr__(self): return f"<SymBool {self.e}>"
    def __and__(self, o): return SymBool(z3.And(self.e, o.e if isinstance(o, SymBool) else z3.BoolVal(bool(o))))
    def __or__(self, o): return SymBool(z3.Or(self.e, o.e if isinstance(o, SymBool) else z3.BoolVal(bool(o))))
    def __invert__(self): return SymBool(z3.Not(self.e))

def _cmp(op):
    def f(self, o):
        oe = _e(o)
        if oe is None: return NotImplemented
        return SymBool(op(self.e, oe))
    return f

def _arith(op, swap=False):
    def f(self, o):
        oe = _e(o)
        if oe is None: return NotImplemented
        r = op(oe, self.e) if swap else op(self.e, oe)
        r = z3.simplify(r)
        return SymInt(r)
    return f

class SymInt(int):
    def __new__(cls, e):
        o = int.__new__(cls, 0); o.e = e; return o
    __lt__ = _cmp(lambda a, b: a < b); __le__ = _cmp(lambda a, b: a <= b)
    __gt__ = _cmp(lambda a, b: a > b); __ge__ = _cmp(lambda a, b: a >= b)
    __eq__ = _cmp(lambda a, b: a == b); __ne__ = _cmp(lambda a, b: a != b)
    __add__ = _arith(lambda a, b: a + b); __radd__ = _arith(lambda a, b: a + b, True)
    __sub__ = _arith(lambda a, b: a - b); __rsub__ = _arith(lambda a, b: a - b, True)
    __mul__ = _arith(lambda a, b: a * b); __rmul__ = _arith(lambda a, b: a * b, True)
    def __floordiv__(self, o): return SymInt(z3.simplify(self.e / _e(o)))
    def __truediv__(self, o): return SymInt(z3.simplify(self.e / _e(o)))  # probe only
    def __neg__(self): return SymInt(-self.e)
    def __bool__(self): return ENGINE.branch(self.e != 0)
    def __hash__(self): return hash(ENGINE.concretize(self.e))
    def __index__(self): return ENGINE.concretize(self.e)
    def __int__(self): return ENGINE.concretize(self.e)
    def __repr__(self): return f"<{z3.simplify(self.e)}>"
    __str__ = __repr__
    def __format__(self, spec): return repr(self)

"""C14 kernel: fault containment and clean shutdown (in-process observables).  One simulator
fails at a request index chosen by the solver (setup_done, each step, each get_data): its
handler raises, or the proxy's send() fails like a closed connection (ConnectionResetError /
asyncio.IncompleteReadError).  All reply orders for the other simulators, including late
replies that arrive while mosaik is shutting down."""
from __future__ import annotations

import asyncio

from vk import sysrun, topo as T


def make_exc(kind):
    if kind == 'raise':
        return RuntimeError('boom (simulator handler failed)')
    if kind == 'typeerr':
        return TypeError("unsupported operand type(s) for +: 'int' and 'NoneType' (simulator handler failed)")
    if kind == 'reset':
        return ConnectionResetError('connection reset by peer')
    return asyncio.IncompleteReadError(b'', 4)


def crash(topo, cfg, culprit, kind, stage):
    def h(eng):
        nreq = 2 * cfg.get('K', 2) + 1
        fi = eng.int('fault_at', 0, nreq - 1)
        st = {'n': 0, 'fired': None}

        def fault(proxy, sid, f, when, r=None):
            if sid != culprit or f not in ('setup_done', 'step', 'get_data'):
                return r
            if when == 'before':
                idx = st['n']
                st['n'] += 1
                st['cur'] = idx
                if st['fired'] is None and bool(fi == idx):
                    st['fired'] = (idx, f)
                    if stage == 'before':
                        raise make_exc(kind)
                return r
            if st['fired'] is not None and st['fired'][0] == st.get('cur') and not st.get('raised') and stage == 'after':
                st['raised'] = True
                raise make_exc(kind)
            return r
        fin = cfg.get('fin_fault')
        if fin is not None:
            # the simulator `fin` fails in finalize() (kind 'finalize': that is its only failure; else: the culprit has already failed in a
            # request and then its finalize() fails as well)
            sysrun.CTX_EXTRA = {'fin_fault': fin}
        try:
            r = sysrun.run_world(eng, topo, cfg, fault=fault if kind != 'finalize' else None, rules=())
        finally:
            sysrun.CTX_EXTRA = {}
        if kind == 'finalize' and sysrun.CTX.get('fin_fired'):
            st['fired'] = ('finalize', culprit)
        log, loop = r.log, r.loop
        fp = [topo['name'], culprit, kind, stage]
        desc = f"{topo['name']} culprit={culprit} kind={kind}/{stage} at request {st['fired']} sync={cfg.get('sync')}" + (f' finalize() of {fin} raises' if fin else '')
        if st['fired'] is None:
            return ('nofault:' + str(r.outcome), {'nontrivial': False})
        if r.outcome in ('deadlock', 'livelock'):
            eng.alarm('C14.hang', f'run() {r.outcome} after the fault: {desc}; pending={[(p[0], p[1]) for p in loop.pending]}', {'fp': fp})
        elif r.outcome == 'done':
            eng.alarm('C14.silent', f'run() completed normally although a simulator failed: {desc}', {'fp': fp})
        # every other simulator: finalize exactly once, nothing afterwards
        for sid in topo['types']:
            fin = [i for i, x in enumerate(log) if x[0] == 'finalize' and x[1] == sid]
            if sid != culprit:
                eng.check(len(fin) == 1, 'C14.finalize', f'{sid} was finalized {len(fin)} times: {desc}', {'fp': fp})
            if fin:
                later = [x for x in log[fin[0] + 1:] if x[1] == sid and x[0] in ('step', 'get_data', 'setup_done')]
                eng.check(not later, 'C14.after_stop', f'{sid} received {later[:3]} after finalize: {desc}', {'fp': fp})
        eng.check(bool(r.closed_by_run), 'C14.loop', f'event loop not closed after run() (ended with {r.outcome} {getattr(r.exc, "args", "")}): {desc}', {'fp': fp})
        leaked = loop.leaked or []
        eng.check(not leaked, 'C14.leak', f'{len(leaked)} unfinished task(s) when the loop was closed: {sorted(leaked)[:4]}: {desc}',
                  {'fp': fp, 'runner_only': all(n.startswith('Runner for') for n in leaked)})
        return (r.outcome, {'nontrivial': True, 'fired': st['fired'], 'leaked': len(leaked)})
    return h


def crash_async(cfg, kind):
    """an agent (generator simulator) is in the middle of an asynchronous get_data() request to A - mosaik's query to A is
    outstanding - when an unconnected third simulator X fails"""
    def h(eng):
        import mosaik
        from vk.kernels import c16
        from vk.sysrun import CTX
        K = cfg.get('K', 2)
        nreq = 2 * K + 1
        fi = eng.int('fault_at', 0, nreq - 1)
        st = {'n': 0, 'fired': None}

        def fault(proxy, sid, f, when, r=None):
            if sid != 'X' or f not in ('setup_done', 'step', 'get_data'):
                return r
            if when == 'before':
                idx = st['n']
                st['n'] += 1
                st['cur'] = idx
                if st['fired'] is None and bool(fi == idx):
                    st['fired'] = (idx, f)
                return r
            if st['fired'] is not None and st['fired'][0] == st.get('cur') and not st.get('raised'):
                st['raised'] = True
                raise make_exc(kind)
            return r
        loop = sysrun.OracleLoop(eng)
        log = []
        mon = c16.Monitor(eng, ['B'], {'B'})
        CTX.clear()
        CTX.update(eng=eng, loop=loop, K=K, until=cfg.get('until', 2), ref=None, log=log, sync=set(cfg.get('sync', ())), hook=None, mon=mon,
                   targets={}, requests_per_step=1, bounded_times=True, no_get=False, fault=fault)
        outcome = None
        with sysrun.patched():
            w = mosaik.World({'S': {'python': 'vk.sysrun:SymSim'}, 'G': {'python': 'vk.kernels.c16:AgentSim'}}, skip_greetings=True,
                             asyncio_loop=loop, cache=cfg.get('cache', False))
            try:
                a = w.start('S', sim_id='A', typ='time-based').M()
                b = w.start('G', sim_id='B', typ='time-based').M()
                w.start('S', sim_id='X', typ='time-based').M()
                w.connect(a, b, async_requests=True)
                loop.active = True
                try:
                    w.run(until=cfg.get('until', 2), print_progress=False, lazy_stepping=cfg.get('lazy', True))
                    outcome = 'done'
                except sysrun.Deadlock:
                    outcome = 'deadlock'
                except sysrun.Livelock:
                    outcome = 'livelock'
                except Exception as e:  # noqa
                    outcome = 'exc:' + type(e).__name__
                finally:
                    loop.active = False
                    closed_by_run = loop.is_closed()
            finally:
                if not loop.is_closed():
                    loop.close()
        fp = ['async', kind]
        desc = f"agent B with async requests to A, X fails ({kind}) at request {st['fired']} sync={cfg.get('sync')} cache={cfg.get('cache', False)}"
        if st['fired'] is None:
            return ('nofault:' + str(outcome), {'nontrivial': False})
        if outcome in ('deadlock', 'livelock'):
            eng.alarm('C14.hang', f'run() {outcome} after the fault: {desc}', {'fp': fp})
        elif outcome == 'done':
            eng.alarm('C14.silent', f'run() completed normally although a simulator failed: {desc}', {'fp': fp})
        for sid in ('A', 'B'):
            fin = [i for i, x in enumerate(log) if x[0] == 'finalize' and x[1] == sid]
            eng.check(len(fin) == 1, 'C14.finalize', f'{sid} was finalized {len(fin)} times: {desc}', {'fp': fp})
            if fin:
                later = [x for x in log[fin[0] + 1:] if x[1] == sid and x[0] in ('step', 'get_data', 'setup_done')]
                eng.check(not later, 'C14.after_stop', f'{sid} received {later[:3]} after finalize: {desc}', {'fp': fp})
        eng.check(closed_by_run, 'C14.loop', f'event loop not closed after run(): {desc}', {'fp': fp})
        leaked = loop.leaked or []
        eng.check(not leaked, 'C14.leak', f'{len(leaked)} unfinished task(s) when the loop was closed: {sorted(leaked)[:4]}: {desc}', {'fp': fp})
        return (outcome, {'nontrivial': True, 'fired': st['fired'], 'leaked': len(leaked)})
    return h


def crash_remote(topo, cfg, culprit, kind):
    """the simulators listed in cfg['remote'] are connected through the in-memory remote transport (vk.remote): the real RemoteProxy,
    Channel and simulator-side loop.  kind: 'raise' (the handler raises: a failure reply), 'die_before' / 'die_after' (the process
    exits when the request arrives / after handling it, before the reply: the connection closes), 'die_any' (the process exits at
    an idle moment of the run chosen by the solver, also between two requests).  cfg['rst']: the second and later writes to a dead
    peer may fail (BrokenPipeError -> connection_lost)."""
    def h(eng):
        from loguru import logger
        from vk import remote as R
        nreq = 2 * cfg.get('K', 2) + 1
        fi = eng.int('fault_at', 0, nreq - 1)
        st = {'n': 0, 'fired': None}

        def rfault(ep, name, when, r):
            if kind == 'die_any' or getattr(ep.sim, 'sid', None) != culprit or not sysrun.CTX['loop'].active:
                return r
            if when == 'before':
                idx = st['n']
                st['n'] += 1
                st['cur'] = idx
                if st['fired'] is None and bool(fi == idx):
                    st['fired'] = (idx, name)
                    if kind in ('die_before', 'reset_before'):
                        # reset_before: the process is gone before it has read the request; the peer sees a reset instead of an end of file
                        ep.die(reset=(kind == 'reset_before'))
                        raise R.Die()
                return r
            if st['fired'] is not None and st['fired'][0] == st.get('cur') and not st.get('raised'):
                st['raised'] = True
                if kind == 'raise':
                    raise RuntimeError('boom (simulator handler failed)')
                if kind == 'die_after':
                    ep.die()
                    raise R.Die()
            return r
        errs = []
        hid = logger.add(lambda m: errs.append(str(m)), level='ERROR', format='{message}')

        def arm(world, loop):
            loop.rst = bool(cfg.get('rst'))
            # kind 'die_any': the culprit's process exits at a moment the solver chooses among all idle moments of the run
            # (also while mosaik is not waiting for a reply from it)
            if kind != 'die_any':
                return
            ep = next(e for e in loop.endpoints if getattr(e.sim, 'sid', None) == culprit)
            loop.rst = bool(cfg.get('rst'))

            def process_exit():
                st['fired'] = ('any', len(loop.deliveries))
                st['log_at_exit'] = len(sysrun.CTX['log'])
                ep.die_now()
            loop.events.append(process_exit)
        try:
            sysrun.CTX_EXTRA = {'remote_fault': rfault, 'before_run': arm}
            r = sysrun.run_world(eng, topo, cfg, rules=())
        finally:
            sysrun.CTX_EXTRA = {}
            logger.remove(hid)
        log, loop = r.log, r.loop
        fp = [topo['name'], culprit, kind, 'remote']
        desc = f"{topo['name']} remote={cfg.get('remote')} culprit={culprit} kind={kind} at request {st['fired']}"
        if st['fired'] is None:
            return ('nofault:' + str(r.outcome), {'nontrivial': False})
        if r.outcome in ('deadlock', 'livelock'):
            eng.alarm('C14.hang', f'run() {r.outcome} after the fault: {desc}; in flight={[(w.label, len(w.inflight)) for w in loop.wires]}',
                      {'fp': fp, 'reset': kind == 'reset_before'})
        elif r.outcome == 'done':
            # a process that exits when mosaik needs nothing from it any more (no request after the exit) cannot matter to the run
            needed = kind != 'die_any' or any(x[1] == culprit and x[0] in ('step', 'get_data', 'setup_done') for x in log[st.get('log_at_exit', 0):])
            if needed:
                eng.check(bool(errs), 'C14.silent', f'run() completed normally and logged no error although a simulator failed: {desc}', {'fp': fp, 'reset': kind == 'reset_before'})
        for sid in topo['types']:
            if sid == culprit:
                continue
            fin = [i for i, x in enumerate(log) if x[0] == 'finalize' and x[1] == sid]
            eng.check(len(fin) == 1, 'C14.finalize', f'{sid} was finalized {len(fin)} times: {desc}', {'fp': fp, 'reset': kind == 'reset_before'})
            if fin:
                later = [x for x in log[fin[0] + 1:] if x[1] == sid and x[0] in ('step', 'get_data', 'setup_done')]
                eng.check(not later, 'C14.after_stop', f'{sid} received {later[:3]} after finalize: {desc}', {'fp': fp, 'reset': kind == 'reset_before'})
        left = [getattr(ep.sim, 'sid', '?') for ep in loop.endpoints if ep.ended == 'left-behind']
        eng.check(not left, 'C14.process', f'simulator process(es) {left} still running one (virtual) second after run() ended: neither a stop request '
                  f'nor a closed connection reached them: {desc}', {'fp': fp, 'reset': kind == 'reset_before'})
        open_ = getattr(loop, 'mosaik_side_open', [])
        eng.check(not open_, 'C14.socket', f'connection(s) {open_} not closed by mosaik when run() ended: {desc}', {'fp': fp, 'reset': kind == 'reset_before'})
        eng.check(bool(r.closed_by_run), 'C14.loop', f'event loop not closed after run() (ended with {r.outcome} {getattr(r.exc, "args", "")}): {desc}', {'fp': fp, 'reset': kind == 'reset_before'})
        leaked = loop.leaked or []
        eng.check(not leaked, 'C14.leak', f'{len(leaked)} unfinished task(s) when the loop was closed: {sorted(leaked)[:4]}: {desc}',
                  {'fp': fp, 'runner_only': all(n.startswith('Runner for') for n in leaked), 'reset': kind == 'reset_before'})
        return (r.outcome, {'nontrivial': True, 'fired': st['fired'], 'leaked': len(leaked), 'errs': len(errs)})
    return h


class NullMon:
    """the agents report their requests to a monitor; C14 does not judge them"""
    def request(self, *a):
        pass
    got = did_set = remote_refused = request


def crash_remote_agent(cfg):
    """a remote agent B (generator simulator making asynchronous get_data / set_data requests to the in-process or remote A) whose
    process exits at an idle moment chosen by the solver - also while one of its requests is being served or answered"""
    def h(eng):
        import mosaik
        from loguru import logger
        from vk import remote as R
        from vk.kernels import c16
        from vk.sysrun import CTX
        K = cfg.get('K', 2)
        st = {'fired': None}
        victim = cfg.get('victim', 'B')      # 'A': the (remote) simulator the agent queries exits, e.g. while it is idle waiting for the agent
        loop = R.MemLoop(eng)
        R.SIM_CLASSES['2'] = c16.AgentSim
        log = []
        mon = NullMon()
        CTX.clear()
        CTX.update(eng=eng, loop=loop, K=K, until=cfg.get('until', 2), ref=None, log=log, sync={'A', 'B'}, hook=None, mon=mon,
                   targets={}, requests_per_step=1, bounded_times=True, no_get=cfg.get('no_get', False))
        outcome = None
        exc = None
        closed_by_run = None
        errs = []
        hid = logger.add(lambda m: errs.append(str(m)), level='ERROR', format='{message}')
        try:
            with sysrun.patched(), R.patched():
                w = mosaik.World({'S': {'python': 'vk.sysrun:SymSim'}, 'RS': {'connect': 'mem:1'}, 'RG': {'connect': 'mem:2'}}, skip_greetings=True,
                                 asyncio_loop=loop, cache=cfg.get('cache', False))
                try:
                    order = cfg.get('order', 'AB')
                    ents = {}
                    for sid in order:
                        if sid == 'A':
                            ents['A'] = w.start('RS' if 'A' in cfg.get('remote', 'B') else 'S', sim_id='A', typ='time-based').M()
                        else:
                            ents['B'] = w.start('RG', sim_id='B', typ='time-based').M()
                    w.connect(ents['A'], ents['B'], async_requests=True)
                    ep = next(e for e in loop.endpoints if getattr(e.sim, 'sid', None) == victim)
                    loop.rst = True

                    def process_exit():
                        st['fired'] = ('any', len(loop.deliveries))
                        st['log_at_exit'] = len(log)
                        ep.die_now()
                    loop.events.append(process_exit)
                    loop.active = True
                    try:
                        w.run(until=cfg.get('until', 2), print_progress=False, lazy_stepping=cfg.get('lazy', True))
                        outcome = 'done'
                    except sysrun.Deadlock:
                        outcome = 'deadlock'
                    except sysrun.Livelock:
                        outcome = 'livelock'
                    except Exception as e:  # noqa
                        outcome = 'exc:' + type(e).__name__
                        exc = e
                    finally:
                        loop.active = False
                        closed_by_run = loop.is_closed()
                finally:
                    if not loop.is_closed():
                        loop.close()
        finally:
            logger.remove(hid)
        fp = ['remote-agent', victim]
        desc = f"remote agent B with async requests to A; the process of {victim} exits at {st['fired']}; order={cfg.get('order', 'AB')} remote={cfg.get('remote', 'B')} cache={cfg.get('cache', False)}"
        if st['fired'] is None:
            return ('nofault:' + str(outcome), {'nontrivial': False})
        if outcome in ('deadlock', 'livelock'):
            eng.alarm('C14.hang', f'run() {outcome} after the fault: {desc}; in flight={[(w_.label, len(w_.inflight)) for w_ in loop.wires]}', {'fp': fp})
        other = 'A' if victim == 'B' else 'B'
        if outcome == 'done' and not errs:
            needed = any(x[1] == victim and x[0] in ('step', 'get_data', 'setup_done') for x in log[st.get('log_at_exit', 0):])
            if needed:
                eng.alarm('C14.silent', f'run() completed normally and logged no error although a simulator it still needed had failed: {desc}', {'fp': fp})
        fin = [i for i, x in enumerate(log) if x[0] == 'finalize' and x[1] == other]
        eng.check(len(fin) == 1, 'C14.finalize', f'{other} was finalized {len(fin)} times: {desc}', {'fp': fp})
        left = [getattr(e.sim, 'sid', '?') for e in loop.endpoints if e.ended == 'left-behind']
        eng.check(not left, 'C14.process', f'simulator process(es) {left} still running one (virtual) second after run() ended: {desc}', {'fp': fp})
        open_ = getattr(loop, 'mosaik_side_open', [])
        eng.check(not open_, 'C14.socket', f'connection(s) {open_} not closed by mosaik when run() ended: {desc}', {'fp': fp})
        eng.check(bool(closed_by_run), 'C14.loop', f'event loop not closed after run() (ended with {outcome} {getattr(exc, "args", "")}): {desc}', {'fp': fp})
        leaked = loop.leaked or []
        eng.check(not leaked, 'C14.leak', f'{len(leaked)} unfinished task(s) when the loop was closed: {sorted(leaked)[:4]}: {desc}', {'fp': fp})
        return (outcome, {'nontrivial': True, 'fired': st['fired'], 'leaked': len(leaked)})
    return h


def jobs(tier):
    q = tier == 'quick'
    cur = {t['name']: t for t in T.curated()}
    out = []
    plans = [('tb2', ['A', 'B'], True), ('hyb2', ['A', 'B'], True), ('tb_ev', ['A'], True),
             # simulators that can be in the middle of a step when another one fails: no lazy wait / no connection
             ('tb2', ['A', 'B'], False), ('hyb2', ['A'], False), ('chain3ev', ['A', 'C'], True)]
    if not q:
        plans += [('tbloop', ['A', 'B'], True), ('weak2', ['A'], True), ('chain3', ['B'], True), ('fanin', ['C'], True), ('tbchain3', ['B'], False)]
    for name, culprits, lazy in plans:
        t = cur[name]
        for culprit in culprits:
            for kind in ('raise', 'typeerr', 'reset', 'eof'):
                for stage in ('after', 'before'):
                    if q and stage == 'before' and kind != 'reset':
                        continue
                    if kind == 'typeerr' and (stage == 'before' or (q and not lazy)):
                        continue
                    if q and (not lazy or len(t['types']) > 2) and kind == 'eof':
                        continue
                    if not q and stage == 'before' and kind in ('eof', 'typeerr'):
                        continue
                    masks = [[], sorted(t['types'])] if q else list(T.sync_masks(t, 'all' if (name in ('tb2', 'hyb2') and lazy) else 'extremes'))
                    if len(t['types']) > 2 and q:
                        masks = [[]]
                    for sync in masks:
                        cfg = {'until': 3, 'K': 2, 'cache': True, 'lazy': lazy, 'D': 0, 'sync': sync, 'salt': 0}
                        if name == 'weak2':
                            cfg.update({'no_self': ['A', 'B'], 'until': 2, 'K': 3})
                        out.append({'id': f"{name}|{culprit}|{kind}|{stage}|sync={''.join(sync) or '-'}|lazy={int(lazy)}", 'harness': 'vk.kernels.c14:crash',
                                    'params': {'topo': t, 'cfg': cfg, 'culprit': culprit, 'kind': kind, 'stage': stage}, 'budget_s': 300})
    # a simulator whose finalize() raises: as its only failure (the run itself is fine), or after it has failed in a request
    for name, culprits, lazy in plans if not q else plans[:2] + plans[5:6]:
        t = cur[name]
        for culprit in culprits:
            for kind in ('finalize', 'raise'):
                if q and kind == 'raise' and name != 'tb2':
                    continue
                for sync in [[], sorted(t['types'])] if len(t['types']) <= 2 else [[]]:
                    cfg = {'until': 3, 'K': 2, 'cache': True, 'lazy': lazy, 'D': 0, 'sync': sync, 'salt': 0, 'fin_fault': culprit}
                    out.append({'id': f"{name}|{culprit}|{kind}+finalize|sync={''.join(sync) or '-'}|lazy={int(lazy)}", 'harness': 'vk.kernels.c14:crash',
                                'params': {'topo': t, 'cfg': cfg, 'culprit': culprit, 'kind': kind, 'stage': 'after'}, 'budget_s': 300})
    # remote transport in memory (vk.remote): handler failure, process exit before / after handling a request
    rplans = [('tb2', ['A', 'B'], [['A', 'B']], True), ('hyb2', ['A'], [['A', 'B'], ['A']], True), ('tb_ev', ['A'], [['A', 'B']], True),
              # without lazy stepping both simulators can be inside a request when one of them fails
              ('tb2', ['A'], [['A', 'B']], False)]
    if not q:
        rplans += [('tb2', ['B'], [['A', 'B'], ['B']], False), ('tb2', ['A'], [['A']], False), ('hyb2', ['B'], [['A', 'B'], ['B']], True),
                   ('tb_ev', ['B'], [['A', 'B']], True), ('chain3ev', ['A'], [['A', 'B', 'C']], True)]
    for name, culprits, remotes, lazy in rplans:
        t = cur[name]
        for culprit in culprits:
            for remote in remotes:
                if culprit not in remote:
                    continue
                for kind in ('raise', 'die_before', 'die_after', 'die_any') + (('reset_before',) if (name == 'tb2' and lazy) or not q else ()):
                    if len(t['types']) > 2 and kind in ('die_any', 'reset_before', 'raise'):
                        continue     # these do not finish within the budget in a three-simulator run (all message orders)
                    for cache in ((True,) if (q or len(t['types']) > 2) else (True, False)):
                        # local simulators of a mixed scenario answer asynchronously
                        cfg = {'until': 3, 'K': 2, 'cache': cache, 'lazy': lazy, 'D': 0, 'sync': [], 'salt': 0, 'remote': remote, 'rst': kind != 'raise'}
                        j = {'id': f"remote|{name}|{culprit}|{kind}|remote={''.join(remote)}|lazy={int(lazy)}|cache={int(cache)}",
                             'harness': 'vk.kernels.c14:crash_remote', 'params': {'topo': t, 'cfg': cfg, 'culprit': culprit, 'kind': kind}, 'budget_s': 300}
                        if len(t['types']) > 2:
                            j['split_depth'] = 16
                        out.append(j)
    # a remote agent with asynchronous requests exits at any idle moment (its requests may be in service)
    for order, remote, victim in ([('BA', 'AB', 'B'), ('AB', 'B', 'B'), ('AB', 'AB', 'A')] if q else
                                  [('BA', 'AB', 'B'), ('AB', 'B', 'B'), ('AB', 'AB', 'B'), ('BA', 'B', 'B'), ('AB', 'AB', 'A'), ('BA', 'AB', 'A')]):
        for cache in ((False,) if q else (False, True)):
            cfg = {'until': 2, 'K': 2, 'cache': cache, 'order': order, 'remote': remote, 'victim': victim}
            out.append({'id': f"remote-agent|order={order}|remote={remote}|victim={victim}|cache={int(cache)}", 'harness': 'vk.kernels.c14:crash_remote_agent',
                        'params': {'cfg': cfg}, 'budget_s': 300, 'split_depth': 14})
    for kind in ('raise', 'reset') + (() if q else ('eof', 'typeerr')):
        for sync in ([[], ['B'], ['X']] if q else [[], ['A'], ['B'], ['X'], ['A', 'B', 'X']]):
            for cache in (False,) + (() if q else (True,)):
                cfg = {'until': 2, 'K': 2, 'cache': cache, 'lazy': True, 'sync': sync}
                out.append({'id': f"asyncreq|{kind}|sync={''.join(sync) or '-'}|cache={int(cache)}", 'harness': 'vk.kernels.c14:crash_async',
                            'params': {'cfg': cfg, 'kind': kind}, 'budget_s': 300, 'split_depth': 16 if not sync else None})
    return out

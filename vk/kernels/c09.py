"""C09 kernel: same-time loop guard.  Weak loops of event-based simulators (no self-steps) under
the solver-driven loop, max_loop_iterations = M an unbounded symbolic int >= 1; the loop length is
decided by the per-step "output present" flags."""
from __future__ import annotations

import re

from vk import sysrun, topo as T
from vk.tt import b_and, b_or, b_not, fmt


def loop_run(topo, cfg):
    def h(eng):
        M = eng.int('max_loop_iterations', 1)
        cfg2 = dict(cfg)
        cfg2['max_loop_iterations'] = M
        cfg2['rule_prefix'] = 'C09.'
        state = {'exceeded': []}

        def hook(ev, sid, f, payload):
            pass
        r = sysrun.run_world(eng, topo, cfg2, rules=('C02',), hook=None)
        ref = r.ref
        fp = [topo['name']]
        desc = f"{topo['name']} sync={cfg.get('sync')}"
        # 1. nobody performed a sub-step with an index >= M
        for st in ref._steps:
            for i, t in enumerate(st.tau[1:]):
                eng.check(t < M, 'C09.exceeded', lambda: f'{st.sid} performed sub-step {fmt(st.tau)} although max_loop_iterations={M}: {desc}', {'fp': fp})
        # outstanding demands beyond the bound (the behaviour asks for more sub-steps than allowed)
        over = []
        for sid, s in ref.sims.items():
            for d in s.demands:
                if len(d.tau) > 1:
                    c = b_or(*[(t >= M) for t in d.tau[1:]])
                    if c is not False and bool(c):
                        over.append((sid, d.tau))
        if r.outcome == 'done':
            ref.on_end()   # C09.C02.lost: a demanded step was never executed
            eng.check(not over, 'C09.silent', f'loop demands {[(s, fmt(t)) for s, t in over]} beyond max_loop_iterations={M} but run() completed: {desc}', {'fp': fp})
        elif r.outcome.startswith('exc:'):
            et = type(r.exc).__name__
            msg = str(r.exc)
            eng.check(et == 'SimulationError', 'C09.errtype', f'run() raised {et}: {msg[:120]}: {desc}', {'fp': fp + [et]})
            eng.check(bool(over), 'C09.interrupted', f'run() raised "{msg[:80]}" although no simulator needs a sub-step beyond max_loop_iterations={M}: {desc}', {'fp': fp})
            # the sub-step index stands for the weak hops taken in THIS time step: it cannot exceed the number of steps executed in
            # that time step, plus one for a weak hop that enters the time step (an output for a later time over a weak connection
            # starts at index 1).  An index that does was carried over from earlier time steps (time-shifted connection in a group).
            def carried(tau):
                at_t = sum(1 for st in ref._steps if bool(st.tau[0] == tau[0]))
                return all(bool(x > at_t + 1) for x in tau[1:] if bool(x >= M))
            if over:
                genuine = [(s_, t_) for s_, t_ in over if not carried(t_)]
                eng.check(bool(genuine), 'C09.interrupted',
                          lambda: f'run() raised "{msg[:90]}" but every sub-step index that reaches max_loop_iterations={M} '
                          f'({[(s_, fmt(t_)) for s_, t_ in over]}) is larger than the number of steps taken in that time step: the loop settles '
                          f'after fewer sub-steps, the index was carried over from earlier time steps: {desc}', {'fp': fp + ['carried'], 'carried': True})
            named = [sid for sid, _ in over if re.search(rf'\b{re.escape(sid)}\b', msg)]
            if over:
                eng.check(bool(named), 'C09.name', f'the error does not name a simulator that exceeded the bound ({[s for s, _ in over]}): {msg[:100]}: {desc}', {'fp': fp})
        else:
            eng.alarm('C09.hang', f'run() ended with {r.outcome}: {desc}', {'fp': fp})
        return (r.outcome, {'nontrivial': ref.nsteps > 1, 'steps': ref.nsteps, 'trace': ref.trace[:40]})
    return h


def topologies():
    mk = T.mk
    return [
        mk('loop2', [['A', 'B']], {'A': 'ev', 'B': 'ev'}, [('A', 'B'), ('B', 'A', {'weak': True})], init={'A': 0}),
        mk('loop2w', [['A', 'B']], {'A': 'ev', 'B': 'ev'}, [('A', 'B', {'weak': True}), ('B', 'A', {'weak': True})], init={'A': 0}),
        mk('loop3', [['A', 'B', 'C']], {'A': 'ev', 'B': 'ev', 'C': 'ev'}, [('A', 'B'), ('B', 'C'), ('C', 'A', {'weak': True})], init={'A': 0}),
        mk('loop2_nested', [['X', ['A', 'B']]], {'A': 'ev', 'B': 'ev', 'X': 'ev'},
           [('X', 'A'), ('A', 'B'), ('B', 'A', {'weak': True})], init={'X': 0}),
        mk('loop2_obs', [['A', 'B'], 'O'], {'A': 'ev', 'B': 'ev', 'O': 'ev'}, [('A', 'B'), ('B', 'A', {'weak': True}), ('B', 'O')], init={'A': 0}),
        mk('loop2_obs_in', [['A', 'B', 'O']], {'A': 'ev', 'B': 'ev', 'O': 'ev'}, [('A', 'B'), ('B', 'A', {'weak': True}), ('B', 'O')], init={'A': 0}),
        mk('loop_outer', [['A', ['B']]], {'A': 'ev', 'B': 'ev'}, [('A', 'B'), ('B', 'A', {'weak': True})], init={'A': 0}),
        mk('loop_sibling_sub', [[['A'], ['B']]], {'A': 'ev', 'B': 'ev'}, [('A', 'B'), ('B', 'A', {'weak': True})], init={'A': 0}),
        mk('loop_sibling_sub2', [[['A'], ['B']]], {'A': 'ev', 'B': 'ev'}, [('A', 'B', {'weak': True}), ('B', 'A')], init={'A': 0}),
        mk('loop_deep', [[['A', 'B']]], {'A': 'ev', 'B': 'ev'}, [('A', 'B'), ('B', 'A', {'weak': True})], init={'A': 0}),
        # two sibling groups, a weak loop in each, the first feeding the second (the second loop's sub-steps start at 0 again)
        mk('loop_sib2', [['A', 'B'], ['C', 'D']], {'A': 'ev', 'B': 'ev', 'C': 'ev', 'D': 'ev'},
           [('A', 'B'), ('B', 'A', {'weak': True}), ('B', 'C', {'i': 't2'}), ('C', 'D'), ('D', 'C', {'weak': True})], init={'A': 0}, tags=('four',)),
        mk('loop_sib2p', [[['A', 'B'], ['C', 'D']]], {'A': 'ev', 'B': 'ev', 'C': 'ev', 'D': 'ev'},
           [('A', 'B'), ('B', 'A', {'weak': True}), ('B', 'C', {'i': 't2'}), ('C', 'D'), ('D', 'C', {'weak': True})], init={'A': 0}, tags=('four',)),
        mk('loop_hy', [['A', 'B']], {'A': 'hy', 'B': 'hy'}, [('A', 'B'), ('B', 'A', {'weak': True})]),
        # a cycle closed by a weak and a time-shifted connection: one sub-step per time step, over several time steps
        mk('loop_ws', [['A', 'B']], {'A': 'ev', 'B': 'ev'}, [('A', 'B', {'weak': True}), ('B', 'A', {'k': 1})], init={'A': 0}, tags=('multi',)),
        mk('loop_sw', [['A', 'B']], {'A': 'ev', 'B': 'ev'}, [('A', 'B', {'k': 1}), ('B', 'A', {'weak': True})], init={'A': 0}, tags=('multi',)),
        # the loop-closing weak connection plus a time-shifted trigger connection between the same pair
        mk('loop2_ws', [['A', 'B']], {'A': 'ev', 'B': 'ev'}, [('A', 'B'), ('B', 'A', {'weak': True}), ('B', 'A', {'k': 1, 'i': 't2'})], init={'A': 0},
           tags=('multi',)),
        mk('loop_ws3', [['A', 'B', 'C']], {'A': 'ev', 'B': 'ev', 'C': 'ev'}, [('A', 'B', {'weak': True}), ('B', 'C'), ('C', 'A', {'k': 1})], init={'A': 0},
           tags=('multi',)),
    ]


def jobs(tier):
    q = tier == 'quick'
    out = []
    for t in topologies():
        hy = t['name'] == 'loop_hy'
        K = (4 if q else 6)
        if hy:
            K = 3 if q else 4
        if 'four' in t.get('tags', ()):
            if q and t['name'] != 'loop_sib2':
                continue
            K = 3 if q else 4
        masks = list(T.sync_masks(t, 'extremes' if (q or len(t['types']) > 2) else 'all'))
        for sync in masks:
            for cache in ((True,) if q else (True, False)):
                cfg = {'until': 4 if 'multi' in t.get('tags', ()) else 2, 'K': K, 'cache': cache, 'lazy': True, 'D': 0, 'sync': sync, 'salt': 0,
                       'no_self': sorted(t['types']) if not hy else ['B']}
                big = len(t['types']) >= 3 and not sync
                j = {'id': f"{t['name']}|sync={''.join(sync) or '-'}|cache={int(cache)}|K={K}", 'harness': 'vk.kernels.c09:loop_run',
                     'params': {'topo': t, 'cfg': cfg}, 'budget_s': 300}
                if big:
                    j['split_depth'] = 18
                out.append(j)
    # loops whose participants may announce outputs for a later time from any sub-step (several time steps)
    for t in topologies():
        if t['name'] not in ('loop2', 'loop2_nested') + (() if q else ('loop2w',)):
            continue
        for sync in ([], sorted(t['types'])):
            cfg = {'until': 3, 'K': 3 if q else 4, 'cache': True, 'lazy': True, 'D': 0, 'sync': sync, 'salt': 0, 'future_outputs': True,
                   'no_self': sorted(t['types']) if t['name'] != 'loop_hy' else ['B']}
            out.append({'id': f"{t['name']}|fut|sync={''.join(sync) or '-'}|K={cfg['K']}", 'harness': 'vk.kernels.c09:loop_run',
                        'params': {'topo': t, 'cfg': cfg}, 'budget_s': 300})
    return out

"""Shared job construction for the properties decided by system runs
(C01 C02 C03 C05 C07 C10)."""
from __future__ import annotations

import itertools

from vk import topo as T, sysrun, common

SYS_RULE = ('one case = one explored path of the real World.run() for one job (topology x cache x lazy x transport modes x '
            'hash salt): a complete assignment of the solver-decided branches (simulator behaviour flags, comparisons of '
            'symbolic times, reply delivery order); non-trivial = at least one simulator step was executed and monitored on '
            'that path; paths have pairwise disjoint path conditions, so they are distinct by construction')


def cfgs(topo, tier, *, caches=(True, False), lazies=(True,), K=2, until=3, masks='all', D=0, salts=(0,), extra=None):
    out = []
    for cache in caches:
        if cache and 'nocache' in topo.get('tags', ()):
            continue  # symbolic shifts become dict keys with the cache on
        for lazy in lazies:
            for sync in T.sync_masks(topo, masks):
                for salt in salts:
                    c = {'until': until if cache or until != 'symnc' else 'sym', 'K': K, 'cache': cache, 'lazy': lazy,
                         'D': D, 'sync': sync, 'salt': salt}
                    if c['until'] == 'sym':
                        # with an unbounded symbolic until every outstanding demand forks on "< until"; keep the hard step bound there
                        c['quiet_after_K'] = False
                    if extra:
                        c.update(extra)
                    out.append(c)
    return out


def job(prop, topo, cfg, budget_s=120, split_depth=None):
    cfg = dict(cfg)
    jid = (f"{topo['name']}|cache={int(cfg['cache'])}|lazy={int(cfg['lazy'])}|sync={''.join(cfg['sync']) or '-'}"
           f"|until={cfg['until']}|K={cfg['K']}|D={cfg['D']}|salt={cfg['salt']}"
           + (f"|fut" if cfg.get('future_outputs') else '') + ("|none" if cfg.get('none_values') else '') + (f"|remote={''.join(cfg['remote'])}" if cfg.get('remote') else '')
           + (f"|cmd={''.join(cfg['remote_cmd'])}|linger={''.join(cfg.get('linger', ()))}" if cfg.get('remote_cmd') else ''))
    j = {'id': jid, 'harness': 'vk.sysrun:system', 'params': {'topo': topo, 'cfg': cfg}, 'budget_s': budget_s}
    if split_depth:
        j['split_depth'] = split_depth
    return j


def fill_report(rep, prop, tier, bounds_extra=None):
    rep.rule = SYS_RULE
    rep.assumptions = list(sysrun.STUBS)
    if prop == 'C05':
        from vk import remote
        rep.assumptions += list(remote.STUBS)
    rep.bounds = {'simulators': '<= 3', 'steps_per_simulator': 'K as given per job (paths needing more are cut and counted)',
                  'early_deliveries_D': 'as given per job', 'values': 'step offsets, output times, until (cache off), shifts: unbounded symbolic ints',
                  'outside': 'sockets, subprocesses, JSON text (C05 runs a family behind the in-memory remote transport of vk.remote), more simulators / steps than stated, real-time mode'}
    if bounds_extra:
        rep.bounds.update(bounds_extra)


# ---------------------------------------------------------------------------
# per-property job plans

def plan(prop, tier, seed):
    """Return the list of jobs for one of the system-run properties."""
    cur = {t['name']: t for t in T.curated()}
    jobs = []
    rules = [prop, 'C05'] if prop != 'C05' else ['C05']

    def add(names, **kw):
        budget = kw.pop('budget_s', 150 if tier == 'quick' else 900)
        split = kw.pop('split', None)
        remote = kw.pop('remote', None)      # 'all': every simulator behind the in-memory remote transport (vk.remote); 'first': the first one
        for n in names:
            t = cur[n]
            masks = kw.get('masks') or ('all' if len(t['types']) <= 2 else 'extremes')
            kk = dict(kw)
            kk['masks'] = masks if not remote else 'extremes'
            for c in cfgs(t, tier, **kk):
                c['rules'] = rules
                if remote == 'cmd':
                    # started by the cmd starter; the last simulator's process outlives its connection (it never exits by itself)
                    sims = sorted(t['types'])
                    c['remote_cmd'] = sims
                    c['linger'] = sims[-1:]
                    if not c['sync']:
                        continue
                elif remote:
                    sims = sorted(t['types'])
                    c['remote'] = sims if remote == 'all' else sims[:1]
                    if remote == 'all' and not c['sync']:
                        continue     # the transport mode of a remote simulator is the message order; one mask is enough
                big = len(t['types']) >= 3 and not c['sync']
                jobs.append(job(prop, t, c, budget_s=budget, split_depth=(split or 22) if big else None))

    two = ['tb2', 'tbshift', 'tbloop', 'hyb2', 'hyb2p', 'hyb2pm', 'ev2', 'evloop', 'tb_ev', 'tb_hy', 'hy_tb',
           'weak2', 'weakonly', 'weaktb', 'tbshift_sym', 'grp_out', 'grp_in', 'grp_sib',
           'multi_shift', 'multi_shift_rev', 'multi_shift_sym', 'multi_tb', 'async2', 'async2hy', 'ev2_late', 'selfloop']
    multi = ['multi_shift', 'multi_shift_rev', 'multi_shift_sym', 'multi_tb', 'multi_weak']
    three = ['chain3ev', 'chain3', 'tbchain3', 'fanin', 'fanout', 'loop3shift', 'weak3', 'weak3in', 'nested', 'reenter', 'shortcut3', 'shortcut3_sym',
             'fanin_same', 'fanin_same2']
    q = tier == 'quick'
    if prop == 'C01':
        add(two, K=2 if q else 3, lazies=(True, False))
        add(['chain3ev', 'tbchain3', 'fanin', 'weak3', 'chain3', 'shortcut3'] if q else three, K=2, lazies=(True, False) if not q else (True,))
        add(['tb2', 'tbloop', 'hyb2', 'tb_ev'], K=2 if q else 3, until='symnc', caches=(False,), lazies=(True, False))
        add(['sibloop', 'sibloop_ev'], K=3, until=2, lazies=(True, False), masks='all', extra={'no_self': ['A', 'B']})
        add(['async2s', 'async2w'], K=2 if q else 3, lazies=(True, False))
        if not q:
            add(['tb2', 'hyb2', 'weak2', 'tb_ev', 'evloop'], K=2, D=1, lazies=(True, False))
    elif prop == 'C02':
        add(['hyb2', 'hyb2p', 'ev2', 'evloop', 'tb_ev', 'weak2', 'weakonly', 'grp_out', 'grp_in', 'grp_sib', 'tb2'] + multi,
            K=2 if q else 3, lazies=(True, False))
        add(['multi_shift', 'multi_shift_rev'], K=3, lazies=(True,))
        add(['ent2hy', 'async2hy', 'ev2_late', 'selfloop'], K=2 if q else 3)
        add(['hyb2_init', 'tb_ev_init', 'ev2_init2'], K=2 if q else 3, lazies=(True,) if q else (True, False))
        add(['loopfeed'], K=2, until=3, caches=(True,), masks='extremes', extra={'no_self': ['A', 'B'], 'future_outputs': True})
        add(['sibloop_ev'], K=3, until=2, masks='all', extra={'no_self': ['A', 'B']})
        add(['hyb2', 'ev2', 'tb_ev'], K=2 if q else 3, lazies=(True,), extra={'future_outputs': True})
        add(['chain3ev', 'chain3', 'fanin'] if q else three, K=2)
        add(['hyb2', 'ev2', 'tb2'], K=2 if q else 3, until='symnc', caches=(False,))
        if not q:
            add(['hyb2', 'ev2', 'tb_ev', 'weak2'], K=2, D=1)
    elif prop == 'C03':
        add(['tb2', 'tbshift', 'tbloop', 'tb_hy', 'hy_tb', 'hyb2pm', 'hyb2p', 'tb_ev'], K=3, lazies=(True, False))
        add(['hyb2', 'ev2', 'weaktb', 'weakonly', 'weak2', 'grp_sib'] + multi, K=2 if q else 3)
        add(['multi_shift', 'multi_tb'], K=3, lazies=(True,))
        add(['multi_attr2', 'multi_attr2r'], K=3, lazies=(True,))
        add(['fanout_attr2'], K=2, until=3, masks='extremes')
        add(['ent2', 'ent2x', 'ent2hy'], K=2 if q else 3, lazies=(True, False))
        add(['ent2fan'], K=2)
        add(['fanout_shift2', 'fanout_shift2r'], K=3, until=3, caches=(True, False), masks='extremes')
        add(['async2', 'selfloop', 'ev2_late'], K=2)
        add(['tb2', 'tbshift', 'tbloop'], K=3 if q else 4, until=4 if q else 5, lazies=(True, False))
        add(['tbshift_sym', 'tb2', 'tbshift'], K=3, until='symnc', caches=(False,), lazies=(True, False))
        add(['fanin', 'tbchain3', 'fanin_same'] if q else ['fanin', 'fanout', 'tbchain3', 'fanin_same', 'fanin_same2'], K=2)
        add(['hyb2'] if q else ['hyb2', 'ev2'], K=2 if q else 3, extra={'future_outputs': True})
        add(['hyb2', 'tb_ev'] if q else ['hyb2', 'ev2', 'tb_ev', 'weak2', 'hyb2pm'], K=2, extra={'none_values': True})    # events whose value is None
        if not q:
            add(['tb2', 'tbshift', 'hyb2pm'], K=3, D=1, lazies=(True, False))
            add(three, K=2, lazies=(True, False))
    elif prop == 'C05':
        add(two, K=2 if q else 3, lazies=(True, False))
        add(['hyb2', 'tb_ev'] if q else ['hyb2', 'ev2', 'tb_ev', 'evloop'], K=2 if q else 3, extra={'future_outputs': True},
            lazies=(True,) if q else (True, False))
        add(['chain3ev', 'reenter', 'nested', 'shortcut3'] if q else three, K=2, lazies=(True, False) if not q else (True,))
        add(['tb2', 'hyb2', 'evloop'], K=2 if q else 3, until='symnc', caches=(False,), lazies=(True, False))
        add(['hyb2_init', 'ev2_init2'], K=2, caches=(True,))
        add(['async_in', 'async_out'], K=2, caches=(True,), masks='sync+one')
        # weak connections with output times up to `until` announced from a sub-step (a step demanded at (until, k > 0))
        add(['weakonly', 'weak2'], K=2, until=2, caches=(True,), lazies=(True, False), masks='extremes', extra={'future_outputs': True})
        add(['tworoutes', 'tworoutes_flat'], K=2, until=2, caches=(True,), masks='extremes', extra={'no_self': ['A', 'B', 'C', 'D']})
        add(['lazyroutes'], K=2, until=2, caches=(True,), masks='extremes', lazies=(True, False), extra={'no_self': ['A', 'B', 'C', 'D']})
        add(['weak4'], K=2, until=2, caches=(True,), lazies=(True, False), masks='extremes', extra={'no_self': ['P', 'Q', 'R', 'D']})
        add(['sibloop', 'loopfeed'], K=2, until=2, caches=(True,), masks='extremes', extra={'no_self': ['A', 'B']})
        # remote transport in memory: real RemoteProxy / Channel / simulator-side loop, all message orders, shutdown with the stop timeout racing
        add(['tb2', 'hyb2', 'tb_ev'] if q else ['tb2', 'hyb2', 'tb_ev', 'ev2', 'evloop', 'weak2', 'grp_out', 'multi_shift'], K=2, caches=(True,), remote='all')
        add(['hyb2'] if q else ['tb2', 'hyb2', 'tb_ev', 'evloop'], K=2, caches=(False,), lazies=(True,) if q else (True, False), remote='first')
        add(['tb2'] if q else ['tb2', 'hyb2', 'tb_ev'], K=2, caches=(True,), remote='cmd')
        if not q:
            add(['chain3ev', 'fanin'], K=2, caches=(True,), remote='all', split=18)
            add(['hyb2', 'weak2', 'chain3ev'], K=2, D=1)
            add(two, K=2, salts=(1, 2))
    elif prop == 'C07':
        add(['hyb2', 'hyb2p', 'ev2', 'evloop', 'tb_ev', 'weak2', 'weakonly', 'grp_out', 'grp_in', 'grp_sib', 'tb2', 'tb_hy'] + multi,
            K=2 if q else 3, lazies=(True, False))
        add(['multi_shift', 'multi_shift_rev'], K=3, lazies=(True,))
        add(['hyb2_init', 'tb_ev_init', 'ev2_init2'], K=2, caches=(True,))      # initial events: external causes that are no trigger inputs
        add(['chain3ev', 'chain3', 'shortcut3', 'shortcut3_sym'] if q else three, K=2, lazies=(True,) if q else (True, False))
        add(['fanin_trig_sh'], K=2, until=4, caches=(True,), lazies=(True,), masks='sync' if q else 'sync+one', extra={'no_self': ['C']})
        add(['hyb2', 'ev2', 'tb_ev'], K=2 if q else 3, until='symnc', caches=(False,))
        add(['hyb2'] if q else ['hyb2', 'ev2'], K=2 if q else 3, extra={'future_outputs': True})
        if not q:
            add(['hyb2', 'chain3ev', 'tb_ev'], K=2, D=1)
    elif prop == 'C10':
        add(['tb2', 'tbshift', 'tbloop', 'tb_hy', 'hy_tb', 'hyb2', 'hyb2p', 'tb_ev', 'ev2', 'evloop', 'weak2', 'grp_out', 'grp_in',
             'grp_sib', 'multi_shift', 'multi_tb'], K=2 if q else 3, lazies=(True,))
        add(['tb2', 'tb_hy', 'hyb2'], K=3, until=4, lazies=(True,))
        add(['async2', 'async2hy', 'async3', 'selfloop'], K=2, lazies=(True,))
        add(['tbchain3', 'fanout', 'chain3'] if q else three, K=2, lazies=(True,))
        add(['fanin', 'fanin_tb'], K=2, lazies=(True,), masks='all', extra={'no_self': ['C']})
        add(['fanin_tb'], K=3, lazies=(True,), caches=(True,), masks='all', extra={'no_self': ['C']})
        add(['tbtri'], K=3, lazies=(True,), masks='all')
        add(['tb2', 'tb_ev', 'hyb2'], K=2 if q else 3, until='symnc', caches=(False,), lazies=(True,))
        if not q:
            add(['tb2', 'hyb2', 'tb_ev'], K=2, D=1, lazies=(True,))
    # generated families (vk.topo.generated / generated_multi): every two-simulator topology, and every pair of parallel
    # connections with different delays.  thorough: each property explores a rotating twelfth; quick: a rotating 1/48 slice.
    # Each selected topology is explored completely (the seed rotates coverage, it does not sample behaviours).
    gen = T.generated() + T.generated_multi()
    if q:
        gen = [t for t in gen if 'weak' not in t['tags']]     # same-time loops explode; curated ones and the thorough tier cover them
    mod = 12 if not q else 48
    off = (int(prop[1:]) * 7 + seed) % mod
    for i, t in enumerate(gen):
        if i % mod != off:
            continue
        lz = (True,) if (prop == 'C10' or q) else (True, False)
        # two hybrid simulators feeding each other: thousands of paths when both answer asynchronously; split over the workers
        loop2 = all(v not in ('tb', 'time-based') for v in t['types'].values()) and len({(e['src'], e['dst']) for e in t['edges']}) > 1
        for c in cfgs(t, tier, K=2, masks='all' if (not q or loop2) else 'extremes', lazies=lz):
            c['rules'] = rules
            heavy = loop2 and len(c['sync']) < len(t['types'])
            if q and loop2 and not c['sync']:
                continue     # quick: these loops with one asynchronous simulator at a time; both asynchronous in the thorough tier
            jobs.append(job(prop, t, c, budget_s=(300 if not q else 90), split_depth=(16 if heavy else None)))
    if not q:
        # generated three-simulator family: a rotating 1/48 per property, transport-mode extremes
        g3 = T.generated3()
        off3 = (int(prop[1:]) * 5 + seed) % 48
        for i, t in enumerate(g3):
            if i % 48 != off3:
                continue
            lz = (True,) if prop == 'C10' else (True, False)
            for c in cfgs(t, tier, K=2, masks='extremes', lazies=lz):
                c['rules'] = rules
                big = not c['sync']
                jobs.append(job(prop, t, c, budget_s=400, split_depth=22 if big else None))
    # dedupe by id
    seen = set()
    out = []
    for j in jobs:
        if j['id'] not in seen:
            seen.add(j['id'])
            out.append(j)
    return out


def validate_reference(rep, prop):
    """translator validation (DESIGN.md 4.3): the repository's in-process scenario tests through the oracle proxy and the
    reference monitors; an alarm on a maintainer-blessed trace that no known finding lists is a bug of the reference"""
    from vk import validate
    v = validate.run()
    known = common.load_known()
    bad = []
    for a in v['alarms']:
        viol = {'rule': a['rule'], 'msg': a['msg'], 'extra': a['extra']}
        if not any(common.match_known(known, p, viol, {}) for p in ('C01', 'C02', 'C03', 'C05', 'C07', 'C10')):
            bad.append(a)
    rep.extra_cov['traces_validated_against_impl'] = v['runs']
    rep.side['reference_validation'] = {'scenario_runs': v['runs'], 'steps': v['steps'], 'rule_evaluations': v['rule_evaluations'],
                                        'alarms': len(v['alarms']), 'alarms_not_listed': len(bad), 'test_failures': v['failures'][:5],
                                        'skipped_remote_or_rt': v['skipped']}
    own = [a for a in bad if a['rule'].startswith(prop)]
    other = [a for a in bad if not a['rule'].startswith(prop)]
    # an alarm of this property's own rules in a concrete run of a maintainer-blessed scenario is a violation observed on the
    # real code (on the unchanged tree there is none: that is the validation of the reference)
    seen = set()
    for a in own:
        if (a['rule'], a['scenario']) in seen:
            continue
        seen.add((a['rule'], a['scenario']))
        rep.concrete.append({'rule': a['rule'], 'scenario': a['scenario'], 'cache': a['cache'], 'msg': a['msg']})
    if v['failures']:
        rep.harness_error(f'the repository\'s own scenario assertions fail under the oracle proxy: {v["failures"][:2]}')
    elif other and not own:
        rep.notes.append(f'reference validation: {len(other)} alarm(s) of other properties\' rules in concrete scenario runs (reported by their own checks): {sorted({a["rule"] for a in other})}')


def run_plan(rep, prop, tier, seed, twin=None):
    jobs = plan(prop, tier, seed)
    fill_report(rep, prop, tier)
    validate_reference(rep, prop)
    from vk.kernels import lemmas
    jobs += lemmas.jobs(prop, tier)
    res = common.run_jobs(jobs)
    rep.add_jobs(res)
    return res

import asyncio, copy, mosaik, mosaik_api_v3, sys
from loguru import logger; logger.remove()
META = {'api_version': '3.0', 'type': 'time-based', 'models': {'M': {'public': True, 'params': [], 'attrs': ['i', 'o']}}}
class Sim(mosaik_api_v3.Simulator):
    def __init__(self): super().__init__(copy.deepcopy(META))
    def init(self, sid, time_resolution, size=1, slow=None): self.sid=sid; self.size=size; self.slow=slow or {}; return self.meta
    def create(self, num, model): return [{'eid':'e','type':model}]
    def step(self, time, inputs, max_advance):
        self.t=time
        if time in self.slow: yield asyncio.sleep(self.slow[time])
        print('step', self.sid, time, inputs)
        return time+self.size
    def get_data(self, outputs): return {'e': {'o': f'{self.sid}@{self.t}'}}
for cache in (True, False):
    print('cache', cache)
    w = mosaik.World({'S': {'python': '__main__:Sim'}}, skip_greetings=True, cache=cache)
    a = w.start('S', sim_id='A', size=2).M(); b = w.start('S', sim_id='B', size=1, slow={2: 0.2}).M()
    w.connect(a, b, ('o','i'), time_shifted=True, initial_data={'o': 'init'})
    w.run(until=3, print_progress=False)

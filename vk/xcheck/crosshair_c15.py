"""Second engine for C15: CrossHair on version STRINGS.

The own executor models a version as a structured object (components are symbolic ints); CrossHair instead makes the string
itself symbolic and runs the real extract_version + init_and_get_adapter on it (vk/xcheck/c15_contracts.py: every string of at
most 5 characters made of single digits separated by single dots).  "Confirmed over all paths" is reported as agreement; a
counterexample string is handed back to the caller, which replays it on the real code without CrossHair (harness
vk.kernels.c15:string_case) before anything is reported; anything else is inconclusive.  The reachability twin (a contract that
is false for a well-formed three-component version) must come back violated, else the run counts as vacuous."""
from __future__ import annotations

import os
import re
import subprocess
import time

HERE = os.path.dirname(os.path.dirname(os.path.dirname(os.path.abspath(__file__))))


def _run(func, timeout):
    mod = os.path.join(HERE, 'vk', 'xcheck', 'c15_contracts.py')
    line = None
    for i, ln in enumerate(open(mod), 1):
        if ln.startswith(f'def {func}('):
            line = i + 1
    repo = os.environ.get('VK_REPO', '/repo')
    env = dict(os.environ)
    env['PYTHONPATH'] = f'{repo}:{HERE}'
    t0 = time.time()
    try:
        pr = subprocess.run([os.path.join(HERE, '.venv', 'bin', 'crosshair'), 'check', '--report_all', '--per_condition_timeout', str(timeout),
                             f'{mod}:{line}'], capture_output=True, text=True, env=env, timeout=timeout * 3 + 60)
        out = (pr.stdout + pr.stderr).strip()
    except subprocess.TimeoutExpired:
        out = 'TIMEOUT'
    secs = round(time.time() - t0, 1)
    if 'Confirmed over all paths' in out:
        return 'confirmed', None, out[-300:], secs
    m = re.search(rf"false when calling {func}\((['\"])(.*?)\1\)", out)
    if m:
        return 'counterexample', m.group(2), out[-300:], secs
    return 'inconclusive', None, out[-300:], secs


def run(timeout=90):
    res = {}
    for func in ('adapt_by_version_string', 'reach_twin'):
        verdict, example, out, secs = _run(func, timeout)
        res[func] = {'verdict': verdict, 'example': example, 'seconds': secs, 'output': out if verdict != 'confirmed' else 'Confirmed over all paths.'}
    return res

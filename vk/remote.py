"""In-memory remote transport: the real `start_connect` / `RemoteProxy` of mosaik, the real `Channel`,
`StreamReader`/`StreamWriter`/`StreamReaderProtocol` of asyncio and the real simulator-side loop
`mosaik_api_v3.run_simulator` run on a pair of `MemTransport`s inside one event loop.

Stubbed (and only this):
  * the socket: `MemTransport` implements the documented asyncio Transport/Protocol contract (write -> the
    peer's data_received in FIFO order, close -> connection_lost(None) locally via call_soon and
    eof_received at the peer after the data in flight; data for a closed peer is discarded);
  * the JSON text of a message: `_encoder.encode` stores the object (converted like JSON would: tuples to
    lists, keys to str, fresh containers) in a table and returns '#<n>', `_decoder.decode` looks it up, so a
    symbolic value can cross; the 4-byte length framing and readexactly() run for real;
  * `asyncio.open_connection`: returns the mosaik end of a new pair and starts the simulator end
    (`run_simulator` on a fresh simulator object, wrapped like `start_simulation_async` wraps it);
  * time: the loop's clock is virtual; when nothing is ready the solver chooses between delivering the first
    message in flight of a simulator->mosaik direction, releasing a parked reply and letting the earliest
    timer fire.  mosaik->simulator messages are delivered at once (the simulators are independent
    processes; their relative order is not observable by mosaik except through the replies)."""
from __future__ import annotations

import asyncio
import collections
import contextlib
import os
import selectors
import weakref

import mosaik_api_v3
import mosaik_api_v3.connection as conn
from mosaik import simmanager
from mosaik.proxies import RemoteProxy

from vk import engine as E
from vk import sysrun
from vk.sysrun import CTX, Deadlock, Livelock


class FakeSelector(selectors._BaseSelectorImpl):
    def select(self, timeout=None):
        return []


class MemTransport(asyncio.Transport):
    def __init__(self, loop, side, label):
        super().__init__()
        self._loop = loop
        self.side = side              # 'mosaik' | 'sim'
        self.label = label
        self.peer = None
        self.protocol = None
        self.closing = False
        self.lost = False
        self.inflight = collections.deque()
        self.written = 0
        self.dead_writes = 0
        self.stop_written = False

    # -- Transport API
    def set_protocol(self, protocol):
        self.protocol = protocol

    def get_protocol(self):
        return self.protocol

    def is_closing(self):
        return self.closing

    def get_extra_info(self, name, default=None):
        return default

    def pause_reading(self):
        pass

    def resume_reading(self):
        pass

    def is_reading(self):
        return not self.closing

    def get_write_buffer_size(self):
        return 0

    def can_write_eof(self):
        return True

    def write(self, data):
        if self.closing or self.lost:
            return
        p = self.peer
        if p.closing or p.lost:
            # the peer's socket is gone (process exit / close): the first write is accepted by the kernel and answered with a
            # reset; any later write may fail with EPIPE / ECONNRESET, which a socket transport turns into
            # connection_lost(exc) (selector_events._SelectorSocketTransport.write -> _fatal_error -> _force_close)
            self.dead_writes += 1
            if self.dead_writes >= 2 and self._loop.active and self._loop.rst and self._loop.eng.choose(2, 'write-error') == 1:
                self.closing = True
                self._loop.deliveries.append(('write-error', self.label))
                self._loop.call_soon(self._lost, BrokenPipeError(32, 'Broken pipe'))
            return
        self.written += 1
        try:
            msg = CTX['msg_table'][int(bytes(data)[5:])]
            if isinstance(msg, list) and len(msg) == 3 and isinstance(msg[2], list) and msg[2][:1] == ['stop']:
                self.stop_written = True
        except Exception:
            pass
        self.inflight.append(('data', bytes(data)))
        self._loop.wire_changed(self)

    def close(self):
        if self.closing:
            return
        self.closing = True
        if self._loop.is_closed():
            return      # StreamWriter.__del__ closes transports of connections that were left open when the loop was closed
        self.inflight.append(('eof',))
        self._loop.wire_changed(self)
        self._loop.call_soon(self._lost, None)

    abort = close

    def _lost(self, exc):
        if not self.lost:
            self.lost = True
            self.protocol.connection_lost(exc)

    # -- the wire
    def reset(self):
        """the socket is closed with unread data in its receive buffer (process exit): the peer sees a connection reset, not an
        end of file (selector_events: recv() fails with ECONNRESET -> _fatal_error -> connection_lost(exc))"""
        if self.closing:
            return
        self.closing = True
        self.inflight.append(('rst',))
        self._loop.wire_changed(self)
        self._loop.call_soon(self._lost, None)

    def deliver_head(self):
        item = self.inflight.popleft()
        p = self.peer
        if p.lost or p.closing:
            return
        if item[0] == 'data':
            p.protocol.data_received(item[1])
        elif item[0] == 'rst':
            p.closing = True
            p._lost(ConnectionResetError(104, 'Connection reset by peer'))
        else:
            keep_open = p.protocol.eof_received()
            if not keep_open:
                p.close()


def make_end(loop, side, label):
    reader = asyncio.StreamReader(limit=2 ** 16, loop=loop)
    protocol = asyncio.StreamReaderProtocol(reader, loop=loop)
    transport = MemTransport(loop, side, label)
    transport.set_protocol(protocol)
    protocol.connection_made(transport)
    writer = asyncio.StreamWriter(transport, protocol, reader, loop)
    return reader, writer, transport


class MemLoop(sysrun.OracleLoop):
    """virtual-clock loop; the solver chooses among messages in flight (simulator -> mosaik), parked replies and the
    earliest timer"""
    MAX_ITER = 6000

    def __init__(self, eng, D=0):
        super().__init__(eng, D, selector=FakeSelector())
        self.now = 0.0
        self.wires = []
        self.endpoints = []
        self.iters = 0
        self.timer_fired = []
        self.rst = False        # writes to a dead peer may fail (second write onwards)
        self.events = []        # callables (e.g. a process exit) that may happen at any idle moment of the active run; each at most once
        # tasks created while a simulator-side task runs belong to that simulator's process
        self.task_owner = weakref.WeakKeyDictionary()
        self.set_task_factory(MemLoop._factory)

    @staticmethod
    def _factory(loop, coro, **kw):
        t = asyncio.Task(coro, loop=loop, **kw)
        try:
            cur = asyncio.current_task(loop)
        except RuntimeError:
            cur = None
        owner = loop.task_owner.get(cur) if cur is not None else None
        if owner is not None:
            loop.task_owner[t] = owner
        return t

    def time(self):
        return self.now

    def wire_changed(self, tr):
        if tr.side == 'mosaik' or not self.active:
            self.call_soon(self._flush, tr)

    def _flush(self, tr):
        while tr.inflight:
            tr.deliver_head()

    def _run_once(self):
        if not self._stopping and not self._ready:
            self.iters += 1
            if self.iters > self.MAX_ITER:
                self.active = False
                self.verdict = 'livelock'
                raise Livelock()
            live = sorted(h for h in self._scheduled if not h._cancelled)
            if not (live and live[0]._when <= self.now):
                opts = [('wire', w) for w in self.wires if w.inflight]
                opts += [('reply', i) for i in range(len(self.pending))]
                if live:
                    opts.append(('timer', live[0]))
                if self.active and (opts or self.events):
                    opts += [('event', i) for i in range(len(self.events))]
                if not opts:
                    self.active = False
                    self.verdict = 'deadlock'
                    raise Deadlock()
                k = self.eng.choose(len(opts), 'deliver') if (self.active and len(opts) > 1) else 0
                kind, x = opts[k]
                if kind == 'wire':
                    # several messages in flight in one direction may arrive in one segment (no loop iteration in between)
                    m = 1
                    if self.active and len(x.inflight) > 1:
                        m = 1 + self.eng.choose(len(x.inflight), 'batch')
                    self.deliveries.append(('msg', x.label) if m == 1 else ('msg', x.label, m))
                    for _ in range(m):
                        x.deliver_head()
                elif kind == 'reply':
                    self._deliver(x)
                elif kind == 'event':
                    ev = self.events.pop(x)
                    self.deliveries.append(('event', getattr(ev, '__name__', 'event')))
                    ev()
                else:
                    self.now = x._when
                    self.timer_fired.append(x._when)
                    self.deliveries.append(('timer', x._when))
        asyncio.SelectorEventLoop._run_once(self)

    def sim_side_tasks(self):
        out = set()
        for ep in self.endpoints:
            out |= ep.tasks()
        return out

    def close(self):
        if self.leaked is None and not self.is_closed():
            try:
                mine = self.sim_side_tasks()
                self.leaked = [t.get_name() for t in asyncio.all_tasks(self) if not t.done() and t not in mine]
            except Exception:
                self.leaked = []
            self.mosaik_side_open = [ep.t_mosaik.label for ep in self.endpoints if not ep.t_mosaik.closing]
            self._drain_sim_side()
        super().close()

    def _drain_sim_side(self):
        """mosaik is done; the simulator processes live on: give each one virtual second to notice the stop request / closed
        connection and exit.  One that does not was left behind."""
        if self.is_running():
            return
        self.active = False
        self._stopping = False
        for ep in self.endpoints:
            if ep.task is None or ep.task.done():
                continue

            async def wait(ep=ep):
                try:
                    await asyncio.wait_for(asyncio.shield(ep.task), 1.0)
                except (asyncio.TimeoutError, Exception):
                    pass
            try:
                self.run_until_complete(wait())
            except (Deadlock, Livelock):
                pass
            if not ep.task.done():
                ep.ended = 'left-behind'
        # end of the path: no simulator-side coroutine may survive into the next one
        rest = [t for t in self.sim_side_tasks() if not t.done()]
        for ep in self.endpoints:
            if ep.task is not None and not ep.task.done():
                ep.sim._log = []        # what happens from here on is clean-up of the harness, not part of the run
        for t in rest:
            t.cancel()
        if rest:
            async def reap():
                await asyncio.gather(*rest, return_exceptions=True)
            try:
                self.run_until_complete(reap())
            except (Deadlock, Livelock, Exception):
                pass


class Die(BaseException):
    """the simulator process dies inside a handler"""


class Endpoint:
    """the simulator's end of one connection: what `python sim.py HOST:PORT` would be"""

    def __init__(self, loop, sim, t_mosaik, t_sim, port):
        self.loop = loop
        self.sim = sim
        self.t_mosaik = t_mosaik
        self.t_sim = t_sim
        self.port = port
        self.task = None
        self.channel = None
        self.nreq = 0
        self.ended = None

    def tasks(self):
        return {t for t, o in list(self.loop.task_owner.items()) if o is self}

    def instrument(self):
        sim = self.sim
        ep = self
        import inspect

        def wrap(name, fn):
            if inspect.isgeneratorfunction(fn):
                return fn

            def w(*a, **k):
                hook = CTX.get('remote_fault')
                if hook is not None:
                    hook(ep, name, 'before', None)
                r = fn(*a, **k)
                if hook is not None:
                    r = hook(ep, name, 'after', r)
                return r
            w.__name__ = name
            return w
        for name in ('setup_done', 'step', 'get_data'):
            setattr(sim, name, wrap(name, getattr(sim, name)))

    def stop_sent(self):
        """mosaik has written a stop request to this connection"""
        return self.t_mosaik.stop_written

    def die(self, reset=False):
        """the process exits: the operating system closes the socket (reset: with unread data in its receive buffer)"""
        if reset:
            self.t_sim.reset()
        else:
            self.t_sim.close()
        if self.channel is not None:
            self.channel._receiver_task.cancel()

    def die_now(self):
        """the process exits at a moment of its own (not inside a handler)"""
        self.die()
        self.ended = 'died'
        for t in self.tasks():
            t.cancel()

    async def serve(self, reader, writer):
        # what mosaik_api_v3.run_as_client / start_simulation_async do around run_simulator
        self.channel = conn.Channel(reader, writer)
        try:
            try:
                await mosaik_api_v3.run_simulator(self.channel, self.sim, api_compliant=True)
                self.ended = 'returned'
            finally:
                await self.channel.close()
        except ConnectionError:
            self.ended = 'connection-error'
        except Die:
            self.ended = 'died'
        except asyncio.CancelledError:
            if self.ended != 'died':
                raise


class _Enc:
    def encode(self, obj):
        tab = CTX['msg_table']
        tab.append(jsonish(obj))
        return '#%d' % (len(tab) - 1)


class _Dec:
    def decode(self, s):
        assert s[0] == '#', s
        return CTX['msg_table'][int(s[1:])]


def jsonish(x):
    """what a round trip through JSON does to the structure (leaves are kept, also symbolic ones)"""
    if isinstance(x, dict):
        out = {}
        for k, v in x.items():
            if not isinstance(k, (str, int, float, bool)) and k is not None:
                raise TypeError(f'keys must be str, int, float, bool or None, not {type(k).__name__}')
            out[k if isinstance(k, str) else _keystr(k)] = jsonish(v)
        return out
    if isinstance(x, (list, tuple)):
        return [jsonish(v) for v in x]
    if x is None or isinstance(x, (str, int, float, bool)) or isinstance(x, (E.SymInt, E.SymBool, E.SymReal)):
        return x
    raise TypeError(f'Object of type {type(x).__name__} is not JSON serializable')


def _keystr(k):
    if k is True:
        return 'true'
    if k is False:
        return 'false'
    if k is None:
        return 'null'
    return str(k)


class OracleRemoteProxy(sysrun.ObservedSend, RemoteProxy):
    park_replies = False

    async def _raw_send(self, request):
        return await RemoteProxy.send(self, request)

    async def stop(self):
        CTX['log'].append(('stop', getattr(self, '_sid', None)))
        await RemoteProxy.stop(self)


SIM_CLASSES = {}     # port -> factory, filled by the harnesses ('1' -> SymSim by default)


async def mem_open_connection(host=None, port=None, **kw):
    loop = asyncio.get_running_loop()
    assert isinstance(loop, MemLoop), 'in-memory connections need a MemLoop'
    return _new_connection(loop, port)


def _new_connection(loop, port, proc=None):
    """a new pair of transports with a fresh simulator object at the far end; returns the mosaik end (reader, writer)"""
    port = str(port)
    n = len(loop.endpoints)
    r1, w1, t1 = make_end(loop, 'mosaik', f'mosaik->conn{n}')
    r2, w2, t2 = make_end(loop, 'sim', f'conn{n}->mosaik')
    t1.peer, t2.peer = t2, t1
    loop.wires.append(t2)       # only simulator -> mosaik is scheduled by the solver
    sim = SIM_CLASSES.get(port, sysrun.SymSim)()
    if proc is not None:
        sim.proc_env, sim.proc_cwd = proc
    ep = Endpoint(loop, sim, t1, t2, port)
    ep.instrument()
    loop.endpoints.append(ep)
    ep.task = loop.create_task(ep.serve(r2, w2), name=f'remote-sim:{port}:{len(loop.endpoints)}')
    loop.task_owner[ep.task] = ep
    return r1, w1


class _MemServer:
    """what asyncio.start_server returns, as far as start_proc uses it"""
    class _Sock:
        def getsockname(self):
            return ('mem', 0)

    def __init__(self, cb):
        self.cb = cb
        self.sockets = [self._Sock()]
        self.closed = False

    def close(self):
        self.closed = True


async def mem_start_server(client_connected_cb, host=None, port=None, **kw):
    srv = _MemServer(client_connected_cb)
    CTX['mem_server'] = srv
    return srv


class _Subprocess:
    """stands for the module `subprocess` inside mosaik.simmanager: Popen 'starts' the simulator of the cmd starter, which connects
    to the server start_proc has just opened.  The command line is ['mem-sim', <class key>, <addr>]; the environment and working
    directory handed to Popen are given to the simulator object (what the process would see)."""

    def __getattr__(self, name):
        import subprocess
        return getattr(subprocess, name)

    def Popen(self, cmd, bufsize=-1, cwd=None, universal_newlines=None, env=None, creationflags=0, **kw):
        loop = asyncio.get_running_loop()
        srv = CTX['mem_server']
        assert cmd[0] == 'mem-sim' and not srv.closed, cmd
        r1, w1 = _new_connection(loop, cmd[1], proc=(dict(env) if env is not None else dict(os.environ), cwd))
        t = loop.create_task(srv.cb(r1, w1))
        CTX.setdefault('popen_calls', []).append({'cmd': list(cmd), 'cwd': cwd})
        return MemProcess(loop.endpoints[-1])


class MemProcess:
    """the Popen handle of an in-memory simulator process.  A process listed in CTX['linger'] (by simulator id) outlives its
    connection (a non-daemon thread, a long finalize(), a wrapper command): it does not exit by itself within the horizon.  Every other
    process exits as soon as it has been told to stop or has lost its connection."""

    def __init__(self, ep):
        self.ep = ep
        self.pid = 4000 + len(ep.loop.endpoints)
        self.returncode = None
        self.killed = False

    def _lingers(self):
        return not self.killed and getattr(self.ep.sim, 'sid', None) in CTX.get('linger', ())

    def _gone(self):
        # exits by itself once its connection is closed in either direction or it was told to stop (the stop request is delivered
        # at once; the simulator side may just not have been scheduled yet because the caller blocks the loop)
        return self.killed or self.ep.task.done() or self.ep.t_mosaik.closing or self.ep.t_sim.closing or self.ep.stop_sent()

    def poll(self):
        if self._lingers() or not self._gone():
            return None
        self.returncode = 0
        return 0

    def wait(self, timeout=None):
        if self.poll() is not None:
            return self.returncode
        if timeout is None:
            # a blocking wait on the event loop for a process that does not exit: nothing can make progress any more
            self.ep.loop.active = False
            self.ep.loop.verdict = 'deadlock'
            raise Deadlock(f'blocking wait() for process {self.pid} which does not exit')
        import subprocess
        raise subprocess.TimeoutExpired('mem-sim', timeout)

    def terminate(self):
        self.killed = True
        self.returncode = -15
        self.ep.die_now()

    kill = terminate

    def communicate(self, *a, **k):
        self.wait(k.get('timeout'))
        return (None, None)


@contextlib.contextmanager
def patched():
    saved = (asyncio.open_connection, conn._encoder, conn._decoder, simmanager.RemoteProxy, asyncio.start_server, simmanager.subprocess)
    saved_env = dict(os.environ)
    asyncio.open_connection = mem_open_connection
    asyncio.start_server = mem_start_server
    simmanager.subprocess = _Subprocess()
    conn._encoder = _Enc()
    conn._decoder = _Dec()
    simmanager.RemoteProxy = OracleRemoteProxy
    CTX['msg_table'] = []
    try:
        yield
    finally:
        asyncio.open_connection, conn._encoder, conn._decoder, simmanager.RemoteProxy, asyncio.start_server, simmanager.subprocess = saved
        if dict(os.environ) != saved_env:       # the code under test must not have changed the checker's own environment for later paths
            os.environ.clear()
            os.environ.update(saved_env)


STUBS = [
    "remote transport in memory: asyncio.open_connection returns the mosaik end of a pair of MemTransports (documented Transport/Protocol "
    "contract: FIFO data_received, close -> local connection_lost(None) via call_soon and eof_received at the peer after the data in flight, data "
    "for a closed peer discarded; where a job says rst, the second and later writes to a closed peer may fail: connection_lost(BrokenPipeError)); StreamReader/StreamWriter/StreamReaderProtocol, mosaik_api_v3 Channel, "
    "mosaik's start_connect and RemoteProxy and the simulator-side mosaik_api_v3.run_simulator are executed for real",
    "JSON text replaced by a table lookup ('#n'), objects converted structurally like a JSON round trip (tuples to lists, keys to str); the "
    "4-byte length framing is real",
    "cmd starter: asyncio.start_server and the name subprocess in mosaik.simmanager are replaced; Popen(['mem-sim', key, addr], env=..., cwd=...) creates the "
    "simulator end, hands it the environment and working directory it was given, and connects it to the server (start_proc itself runs for real)",
    "virtual clock: when nothing is ready the solver picks the next simulator->mosaik message (or several consecutive ones of that direction "
    "arriving together), a parked reply, or lets the earliest timer fire "
    "(so RemoteProxy.stop()'s 0.1 s timeout races with the simulator's reaction); mosaik->simulator messages arrive at once",
]

import os, sys, time, asyncio
import mosaik_api_v3

META = {'api_version': '3.0', 'type': 'time-based', 'models': {'M': {'public': True, 'params': [], 'attrs': ['x', 'y']}}}

class RSim(mosaik_api_v3.Simulator):
    def __init__(self):
        super().__init__(META)
    def init(self, sid, time_resolution, die_at=None):
        self.die_at = die_at
        return self.meta
    def create(self, num, model, **p):
        return [{'eid': 'e%d' % i, 'type': model} for i in range(num)]
    def step(self, time_, inputs, max_advance):
        self.t = time_
        if self.die_at is not None and time_ >= self.die_at:
            asyncio.ensure_future(self.mosaik.get_progress())
            yield asyncio.sleep(0)
            time.sleep(0.3)   # reply arrives, stays unread
            os._exit(1)       # -> RST instead of FIN
        return time_ + 1
    def get_data(self, outputs):
        return {eid: {a: self.t for a in attrs} for eid, attrs in outputs.items()}

if __name__ == '__main__':
    mosaik_api_v3.start_simulation(RSim())

"""C15 API version adaptation."""
from vk import common
from vk.kernels import c15 as K


def run(rep, tier, seed, args):
    jobs = K.jobs(tier)
    rep.rule = ('one case = one path through World.start() (real init_and_get_adapter, LocalProxy.init, extract_version, adapters) and a 3-step run for one '
                'enumerated configuration (signature kind x number of version components x configured api_version kind x type present) with every '
                'version component an unbounded symbolic int >= 0; non-trivial = start() was reached; paths distinct (disjoint conditions on the components)')
    rep.bounds = {'version_components': '0 (no api_version) .. 3, each unbounded', 'signature kinds': sorted(K.KINDS),
                  'configured api_version': 'absent / the same / another version of 1-2 (thorough 3) symbolic components', 'run': 'until=3, producer + stub + current-version twin',
                  'outside': 'malformed version strings (non-digits, empty components), remote simulators (RemoteProxy.init), event-based/hybrid old-API simulators'}
    rep.assumptions = ["version strings are structured objects whose split('.') yields components that a symbolic-aware int() (bound to the name int in mosaik.proxies and mosaik.adapters) maps to symbolic ints; CPython's str.split and int() are trusted; concrete replay uses real strings",
                       'list comparison of versions is executed for real (forks element-wise)',
                       'a v3 simulator without a type is rejected by ModelFactory; this is accepted by the oracle but is not one of the C15 rejection reasons']
    rep.add_jobs(common.run_jobs(jobs))

# P29 (open): with lazy_stepping (the default) run() never returns for an acyclic-apart-from-a-weak-loop scenario in which a member
# D of the group of the weak loop A <-> B is fed by A directly and through C outside the group.  A (next step 0:1) lazily waits
# for its successor D to reach 0:1; D (next step 0:0) waits for C's output of time 0; C waits until A has left time 0.
# With lazy_stepping=False the same scenario completes.   Run with: /venv/bin/python findings/P29_lazy_deadlock.py
import faulthandler, sys
import mosaik, mosaik_api_v3

class S(mosaik_api_v3.Simulator):
    def __init__(self):
        super().__init__({"api_version": "3.0", "type": "event-based", "models": {"M": {"public": True, "params": [], "attrs": ["i", "i2", "o"]}}})
    def init(self, sid, time_resolution=1.0, outputs=1, **kw):
        self.sid, self.left = sid, outputs
        return self.meta
    def create(self, num, model, **p): return [{"eid": "e", "type": "M"}]
    def step(self, time, inputs, max_advance):
        print("step", self.sid, time, flush=True)
        return None
    def get_data(self, o):
        if self.left <= 0:
            return {}
        self.left -= 1
        return {"e": {"o": self.sid}}

lazy = sys.argv[1:] != ["off"]
faulthandler.dump_traceback_later(10, exit=True)      # watchdog: the hang
w = mosaik.World({"S": {"python": "__main__:S"}}, skip_greetings=True)
with w.group():
    a = w.start("S", sim_id="A").M(); b = w.start("S", sim_id="B").M(); d = w.start("S", sim_id="D").M()
c = w.start("S", sim_id="C").M()
w.connect(a, b, ("o", "i")); w.connect(b, a, ("o", "i"), weak=True)
w.connect(a, d, ("o", "i")); w.connect(a, c, ("o", "i")); w.connect(c, d, ("o", "i2"))
w.set_initial_event("A", 0)
w.run(until=2, print_progress=False, lazy_stepping=lazy)
print("RUN-RETURNED")

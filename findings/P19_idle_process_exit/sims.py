import os, sys, time, threading
import mosaik_api_v3
class S(mosaik_api_v3.Simulator):
    def __init__(self):
        super().__init__({'type': 'time-based', 'models': {'M': {'public': True, 'params': [], 'attrs': ['a', 'b']}}})
    def init(self, sid, time_resolution, slow=0.0, die_after=None, marker=None):
        self.sid = sid; self.slow = slow; self.marker = marker
        if die_after is not None:
            threading.Timer(die_after, lambda: os._exit(1)).start()
        return self.meta
    def create(self, num, model):
        return [{'eid': 'e', 'type': model}]
    def step(self, time_, inputs, max_advance):
        time.sleep(self.slow)
        return time_ + 1
    def get_data(self, outputs):
        return {'e': {'a': 1}}
    def finalize(self):
        if self.marker:
            open(self.marker, 'w').write('finalized')
if __name__ == '__main__':
    sys.exit(mosaik_api_v3.start_simulation(S()))

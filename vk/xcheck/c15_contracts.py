"""CrossHair contracts for C15: the real extract_version + init_and_get_adapter on a symbolic version STRING."""
import warnings
from mosaik.proxies import extract_version, BaseProxy
from mosaik import adapters
from mosaik.exceptions import ScenarioError


class FakeProxy(BaseProxy):
    def __init__(self, meta):
        self._meta = meta

    @property
    def meta(self):
        return self._meta

    async def init(self, sid, **kw):
        return extract_version(self._meta)

    async def send(self, request):
        return None

    async def stop(self):
        return None


def drive(coro):
    try:
        coro.send(None)
    except StopIteration as e:
        return e.value
    raise RuntimeError('coroutine yielded')


def classify(s: str) -> str:
    """outcome class of starting a simulator that announces api_version s (no configured version)"""
    p = FakeProxy({'api_version': s, 'models': {}})
    try:
        with warnings.catch_warnings():
            warnings.simplefilter('ignore')
            r = drive(adapters.init_and_get_adapter(p, 'X', {}))
    except ScenarioError:
        return 'reject'
    n = 0
    while r is not p:
        n += 1
        r = r._out
    return ['plain', 'v3to2', 'v3to2+v2to1'][n]


def wellformed(s: str) -> bool:
    # single digits separated by single dots: d | d.d | d.d.d
    if len(s) % 2 == 0:
        return False
    i = 0
    while i < len(s):
        c = s[i]
        if i % 2 == 0:
            if not ('0' <= c <= '9'):
                return False
        elif c != '.':
            return False
        i += 1
    return True


def expected(s: str) -> str:
    nums = [int(x) for x in s.split('.')]
    major = nums[0]
    minor = nums[1] if len(nums) > 1 else 0
    if major >= 4:
        return 'reject'
    if major == 3:
        return 'plain'
    if major == 2 and minor >= 2:
        return 'v3to2'
    return 'v3to2+v2to1'


def adapt_by_version_string(s: str) -> bool:
    """
    pre: 1 <= len(s) <= 5
    post: _
    """
    if not wellformed(s):
        return True
    return classify(s) == expected(s)


def reach_twin(s: str) -> bool:
    """
    pre: 1 <= len(s) <= 5
    post: _
    """
    if not wellformed(s):
        return True
    # reachability witness: must come back violated (a well-formed three-component version exists)
    return not (len(s) == 5 and classify(s) == 'v3to2')

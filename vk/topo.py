"""Scenario families for system runs (DESIGN.md 3.5).

A topology is a JSON-able dict:
  tree   nested list of simulator ids; an inner list is a `with world.group():` block
  types  {sid: 'time-based' | 'event-based' | 'hybrid'}
  edges  [{src, dst, sa, da, k, weak, initial, async}]   (sa in op/oe, da in it/im)
  init   {sid: time}   initial events
"""
from __future__ import annotations

import itertools

TB, EV, HY = 'time-based', 'event-based', 'hybrid'
SHORT = {'tb': TB, 'ev': EV, 'hy': HY}


def out_attr(typ, kind):
    """kind 'p' persistent / 'e' event; 'p2' = a second persistent output attribute"""
    if kind == 'p2':
        return 'op2' if typ != EV else None
    if typ == TB:
        return 'op' if kind == 'p' else None
    if typ == EV:
        return 'oe' if kind == 'e' else None
    return 'op' if kind == 'p' else 'oe'


def in_attr(typ, kind):
    """kind 't' trigger / 'm' non-trigger (measurement); 't2' / 'm2' = a second attribute of the same kind"""
    suffix = '2' if kind.endswith('2') else ''
    kind = kind[0]
    if typ == TB:
        return 'im' + suffix if kind == 'm' else None
    if typ == EV:
        return 'it' + suffix if kind == 't' else None
    return ('it' if kind == 't' else 'im') + suffix


def default_kinds(st, dt):
    o = 'p' if st == TB else 'e'
    i = 'm' if dt == TB else 't'
    return o, i


def mk(name, tree, types, edges, init=None, tags=()):
    """edges: tuples (src, dst, opts) with opts: o=p/e, i=t/m, k=int|'sym', weak, initial (auto)"""
    types = {k: SHORT.get(v, v) for k, v in types.items()}
    es = []
    for e in edges:
        src, dst = e[0], e[1]
        o = dict(e[2]) if len(e) > 2 else {}
        do, di = default_kinds(types[src], types[dst])
        ok, ik = o.get('o', do), o.get('i', di)
        sa, da = out_attr(types[src], ok), in_attr(types[dst], ik)
        assert sa and da, (name, e)
        k = o.get('k', 0)
        weak = bool(o.get('weak', False))
        needed = ik[0] == 'm' and (weak or not (type(k) is int and k == 0))
        initial = o.get('initial', needed)
        d = {'src': src, 'dst': dst, 'sa': sa, 'da': da, 'k': k, 'weak': weak, 'initial': bool(initial)}
        if 'kmin' in o:
            d['kmin'] = o['kmin']
        if o.get('async'):
            d['async'] = True
        if 'se' in o:
            d['se'] = o['se']
        if 'de' in o:
            d['de'] = o['de']
        es.append(d)
    return {'name': name, 'tree': tree, 'types': types, 'edges': es, 'init': init or {}, 'tags': list(tags)}


def sids(topo):
    return sorted(topo['types'])


def curated():
    T = []
    a = T.append
    # --- two simulators
    a(mk('tb2', ['A', 'B'], {'A': 'tb', 'B': 'tb'}, [('A', 'B')], tags=['data', 'lazy']))
    a(mk('tbshift', ['A', 'B'], {'A': 'tb', 'B': 'tb'}, [('A', 'B', {'k': 1})], tags=['data', 'prune']))
    a(mk('tbloop', ['A', 'B'], {'A': 'tb', 'B': 'tb'}, [('A', 'B'), ('B', 'A', {'k': 1})], tags=['data', 'cycle']))
    a(mk('hyb2', ['A', 'B'], {'A': 'hy', 'B': 'hy'}, [('A', 'B')], tags=['trigger']))
    a(mk('hyb2p', ['A', 'B'], {'A': 'hy', 'B': 'hy'}, [('A', 'B', {'o': 'p', 'i': 't'})], tags=['trigger', 'data']))
    a(mk('hyb2pm', ['A', 'B'], {'A': 'hy', 'B': 'hy'}, [('A', 'B', {'o': 'p', 'i': 'm'}), ('A', 'B', {'o': 'e', 'i': 't'})],
         tags=['trigger', 'data']))
    a(mk('ev2', ['A', 'B'], {'A': 'ev', 'B': 'ev'}, [('A', 'B')], init={'A': 0}, tags=['trigger']))
    # initial events for simulators that also have their step at time 0, and several initial events for one simulator
    a(mk('hyb2_init', ['A', 'B'], {'A': 'hy', 'B': 'hy'}, [('A', 'B')], init={'A': 1, 'B': 2}, tags=['trigger', 'init']))
    a(mk('tb_ev_init', ['A', 'B'], {'A': 'tb', 'B': 'ev'}, [('A', 'B')], init={'A': 2, 'B': 1}, tags=['trigger', 'init']))
    a(mk('ev2_init2', ['A', 'B'], {'A': 'ev', 'B': 'ev'}, [('A', 'B')], init={'A': [0, 2], 'B': [1]}, tags=['trigger', 'init']))
    a(mk('evloop', ['A', 'B'], {'A': 'ev', 'B': 'ev'}, [('A', 'B'), ('B', 'A', {'k': 'sym'})], init={'A': 0},
         tags=['trigger', 'cycle']))
    a(mk('tb_ev', ['A', 'B'], {'A': 'tb', 'B': 'ev'}, [('A', 'B')], tags=['trigger', 'data']))
    a(mk('tb_hy', ['A', 'B'], {'A': 'tb', 'B': 'hy'}, [('A', 'B', {'i': 'm'})], tags=['data', 'lazy']))
    a(mk('hy_tb', ['A', 'B'], {'A': 'hy', 'B': 'tb'}, [('A', 'B', {'o': 'p'})], tags=['data']))
    a(mk('weak2', [['A', 'B']], {'A': 'hy', 'B': 'hy'}, [('A', 'B'), ('B', 'A', {'weak': True})], tags=['weak', 'trigger']))
    a(mk('weakonly', [['A', 'B']], {'A': 'hy', 'B': 'hy'}, [('A', 'B', {'weak': True})], tags=['weak', 'trigger']))
    a(mk('weaktb', [['A', 'B']], {'A': 'tb', 'B': 'tb'}, [('A', 'B', {'weak': True})], tags=['weak', 'data']))
    a(mk('tbshift_sym', ['A', 'B'], {'A': 'tb', 'B': 'tb'}, [('A', 'B', {'k': 'sym'})], tags=['data', 'nocache']))
    a(mk('grp_out', [['A'], 'B'], {'A': 'hy', 'B': 'hy'}, [('A', 'B')], tags=['groups', 'trigger']))
    a(mk('grp_in', ['A', ['B']], {'A': 'hy', 'B': 'hy'}, [('A', 'B')], tags=['groups', 'trigger']))
    a(mk('grp_sib', [['A'], ['B']], {'A': 'hy', 'B': 'hy'}, [('A', 'B'), ('B', 'A', {'k': 1})], tags=['groups', 'trigger', 'cycle']))
    # --- three simulators
    a(mk('chain3ev', ['A', 'B', 'C'], {'A': 'hy', 'B': 'ev', 'C': 'tb'}, [('A', 'B')], tags=['inflight', 'trigger']))
    a(mk('chain3', ['A', 'B', 'C'], {'A': 'hy', 'B': 'hy', 'C': 'hy'}, [('A', 'B'), ('B', 'C')], tags=['trigger', 'chain']))
    a(mk('tbchain3', ['A', 'B', 'C'], {'A': 'tb', 'B': 'tb', 'C': 'tb'}, [('A', 'B'), ('B', 'C')], tags=['data', 'lazy']))
    a(mk('fanin', ['A', 'B', 'C'], {'A': 'tb', 'B': 'ev', 'C': 'hy'}, [('A', 'C', {'i': 'm'}), ('B', 'C', {'i': 't'})],
         init={'B': 0}, tags=['data', 'trigger']))
    a(mk('fanin_same', ['A', 'B', 'C'], {'A': 'tb', 'B': 'ev', 'C': 'hy'}, [('A', 'C', {'i': 't'}), ('B', 'C', {'i': 't'})],
         init={'B': 0}, tags=['data', 'trigger', 'mixed']))
    a(mk('fanin_same2', ['A', 'B', 'C'], {'A': 'hy', 'B': 'hy', 'C': 'hy'}, [('A', 'C', {'o': 'p', 'i': 'm'}), ('B', 'C', {'o': 'p', 'i': 'm'}),
                                                                              ('B', 'C', {'o': 'e', 'i': 't'})],
         tags=['data', 'trigger', 'mixed']))
    a(mk('shortcut3', ['A', 'B', 'C'], {'A': 'hy', 'B': 'ev', 'C': 'hy'}, [('A', 'B'), ('B', 'C'), ('A', 'C', {'k': 2, 'i': 't2'})],
         tags=['trigger', 'chain', 'delay']))
    a(mk('shortcut3_sym', ['A', 'B', 'C'], {'A': 'hy', 'B': 'ev', 'C': 'hy'}, [('A', 'B'), ('B', 'C'), ('A', 'C', {'k': 'sym', 'i': 't2'})],
         tags=['trigger', 'chain', 'delay', 'nocache']))
    # two triggering ancestors with different distances: the far one (time-shifted) may have the earlier queued step
    a(mk('fanin_trig_sh', ['A', 'B', 'C'], {'A': 'hy', 'B': 'hy', 'C': 'hy'}, [('A', 'C', {'k': 2, 'i': 't'}), ('B', 'C', {'i': 't2'})],
         tags=['trigger', 'three', 'delay']))
    a(mk('fanin_tb', ['A', 'B', 'C'], {'A': 'tb', 'B': 'tb', 'C': 'hy'}, [('A', 'C', {'i': 'm'}), ('B', 'C', {'i': 't'})],
         tags=['data', 'trigger', 'lazy']))
    a(mk('fanout', ['A', 'B', 'C'], {'A': 'hy', 'B': 'hy', 'C': 'tb'}, [('A', 'B'), ('A', 'C', {'o': 'p'})], tags=['data', 'trigger']))
    a(mk('loop3shift', ['A', 'B', 'C'], {'A': 'hy', 'B': 'hy', 'C': 'hy'}, [('A', 'B'), ('B', 'C'), ('C', 'A', {'k': 1})],
         tags=['cycle', 'trigger']))
    a(mk('weak3', [['A', 'B'], 'C'], {'A': 'hy', 'B': 'hy', 'C': 'hy'}, [('A', 'B'), ('B', 'A', {'weak': True}), ('B', 'C')],
         tags=['weak', 'groups', 'trigger']))
    a(mk('weak3in', ['C', ['A', 'B']], {'A': 'hy', 'B': 'hy', 'C': 'hy'}, [('C', 'A'), ('A', 'B'), ('B', 'A', {'weak': True})],
         tags=['weak', 'groups', 'trigger']))
    a(mk('nested', [['A', ['B']], 'C'], {'A': 'hy', 'B': 'hy', 'C': 'hy'}, [('A', 'B'), ('B', 'A', {'weak': True}), ('B', 'C')],
         tags=['weak', 'groups', 'trigger']))
    a(mk('reenter', [['A', 'C'], 'B'], {'A': 'hy', 'B': 'hy', 'C': 'hy'}, [('A', 'B'), ('B', 'C'), ('A', 'C')],
         tags=['groups', 'trigger', 'delay']))
    # --- async_requests connections next to ordinary data flow (the destination makes no requests here; scheduling only)
    a(mk('async2', ['A', 'B'], {'A': 'tb', 'B': 'tb'}, [('A', 'B', {'async': True})], tags=['data', 'async']))
    # asynchronous requests on a pair whose only data connection is time-shifted / weak: the async connection still means zero delay
    a(mk('async2s', ['A', 'B'], {'A': 'tb', 'B': 'tb'}, [('A', 'B', {'k': 1, 'async': True})], tags=['data', 'async']))
    a(mk('async2w', [['A', 'B']], {'A': 'tb', 'B': 'hy'}, [('A', 'B', {'i': 't', 'weak': True, 'async': True})], tags=['data', 'async']))
    # asynchronous requests between simulators at different group depths, next to another connection (the delay of the async
    # connection is composed with it by the set-up closures)
    a(mk('async_in', ['A', ['B', 'C']], {'A': 'tb', 'B': 'tb', 'C': 'hy'}, [('A', 'B', {'async': True}), ('B', 'C', {'i': 't'})], tags=['data', 'async', 'groups']))
    a(mk('async_out', [['A'], 'B', 'C'], {'A': 'hy', 'B': 'tb', 'C': 'hy'}, [('A', 'B', {'async': True, 'o': 'p'}), ('C', 'A', {'i': 't'})], tags=['data', 'async', 'groups']))
    a(mk('async2hy', ['A', 'B'], {'A': 'hy', 'B': 'hy'}, [('A', 'B', {'async': True})], tags=['trigger', 'async']))
    a(mk('async3', ['A', 'B', 'C'], {'A': 'tb', 'B': 'tb', 'C': 'hy'}, [('A', 'B', {'async': True}), ('B', 'C', {'i': 't'})], tags=['data', 'async']))
    # --- initial events at a later time, self-connection
    a(mk('ev2_late', ['A', 'B'], {'A': 'ev', 'B': 'ev'}, [('A', 'B'), ('B', 'A', {'k': 1})], init={'A': 1, 'B': 0}, tags=['trigger', 'cycle']))
    a(mk('selfloop', ['A', 'B'], {'A': 'hy', 'B': 'hy'}, [('A', 'A', {'k': 1}), ('A', 'B')], tags=['trigger', 'cycle', 'self']))
    # --- several entities per simulator
    a(mk('ent2', ['A', 'B'], {'A': 'tb', 'B': 'tb'}, [('A', 'B'), ('A', 'B', {'se': 'f', 'de': 'f'})], tags=['data', 'entities']))
    a(mk('ent2x', ['A', 'B'], {'A': 'tb', 'B': 'tb'}, [('A', 'B', {'se': 'e', 'de': 'f'}), ('A', 'B', {'se': 'f', 'de': 'e', 'k': 1})],
         tags=['data', 'entities']))
    a(mk('ent2hy', ['A', 'B'], {'A': 'hy', 'B': 'hy'}, [('A', 'B', {'o': 'p', 'i': 'm'}), ('A', 'B', {'se': 'f', 'de': 'f'}),
                                                          ('A', 'B', {'se': 'f', 'de': 'e', 'o': 'e', 'i': 't2'})], tags=['data', 'trigger', 'entities']))
    a(mk('ent2fan', ['A', 'B', 'C'], {'A': 'tb', 'B': 'hy', 'C': 'hy'}, [('A', 'C', {'i': 'm', 'de': 'e'}), ('B', 'C', {'i': 't', 'de': 'f'}),
                                                                           ('A', 'C', {'i': 'm', 'se': 'f', 'de': 'f'})], tags=['data', 'trigger', 'entities']))
    # --- same-time loop in one group feeding a simulator of a sibling group / of the same group (sub-time must not leak across groups;
    #     future output times from a later sub-step)
    a(mk('sibloop', [['A', 'B'], ['C']], {'A': 'ev', 'B': 'ev', 'C': 'tb'}, [('A', 'B'), ('B', 'A', {'weak': True}), ('A', 'C', {'i': 'm'})],
         init={'A': 0}, tags=['weak', 'groups', 'sibling']))
    a(mk('sibloop_ev', [['A', 'B'], ['C']], {'A': 'ev', 'B': 'ev', 'C': 'ev'}, [('A', 'B'), ('B', 'A', {'weak': True}), ('A', 'C')],
         init={'A': 0}, tags=['weak', 'groups', 'sibling']))
    a(mk('loopfeed', [['A', 'B', 'C']], {'A': 'ev', 'B': 'ev', 'C': 'hy'}, [('A', 'B'), ('B', 'A', {'weak': True}), ('A', 'C')],
         init={'A': 0}, tags=['weak', 'groups', 'future']))
    # --- one simulator triggered on two tiers of the same time over different weak paths
    a(mk('weak4', [['P', 'Q', 'R', 'D']], {'P': 'hy', 'Q': 'ev', 'R': 'hy', 'D': 'ev'},
         [('P', 'Q', {'weak': True}), ('Q', 'D', {'weak': True}), ('R', 'D', {'weak': True, 'i': 't2'})], tags=['weak', 'four']))
    # --- triangle of time-based simulators; one producer pulled with different shifts by two consumers
    a(mk('tbtri', ['A', 'B', 'C'], {'A': 'tb', 'B': 'tb', 'C': 'tb'}, [('A', 'B'), ('B', 'C'), ('A', 'C', {'i': 'm2'})], tags=['data', 'lazy']))
    a(mk('fanout_shift2', ['A', 'B', 'C'], {'A': 'tb', 'B': 'tb', 'C': 'tb'}, [('A', 'B', {'k': 2}), ('A', 'C')], tags=['data', 'prune']))
    a(mk('fanout_shift2r', ['A', 'C', 'B'], {'A': 'tb', 'B': 'tb', 'C': 'tb'}, [('A', 'B', {'k': 2}), ('A', 'C')], tags=['data', 'prune']))
    # --- multi-edges between one pair with different delays
    # two different persistent outputs of one simulator, time-shifted by different amounts (initial data at different cache times)
    a(mk('multi_attr2', ['A', 'B'], {'A': 'tb', 'B': 'tb'}, [('A', 'B', {'k': 1}), ('A', 'B', {'o': 'p2', 'i': 'm2', 'k': 2})], tags=['data', 'multi']))
    a(mk('multi_attr2r', ['A', 'B'], {'A': 'tb', 'B': 'tb'}, [('A', 'B', {'k': 2}), ('A', 'B', {'o': 'p2', 'i': 'm2', 'k': 1})], tags=['data', 'multi']))
    a(mk('fanout_attr2', ['A', 'B', 'C'], {'A': 'tb', 'B': 'tb', 'C': 'hy'}, [('A', 'B', {'k': 1}), ('A', 'C', {'o': 'p2', 'i': 'm', 'k': 2})],
         tags=['data', 'multi']))
    a(mk('multi_shift', ['A', 'B'], {'A': 'ev', 'B': 'ev'}, [('A', 'B'), ('A', 'B', {'k': 2, 'i': 't2'})], init={'A': 0}, tags=['multi', 'trigger']))
    a(mk('multi_shift_rev', ['A', 'B'], {'A': 'ev', 'B': 'ev'}, [('A', 'B', {'k': 2}), ('A', 'B', {'i': 't2'})], init={'A': 0}, tags=['multi', 'trigger']))
    a(mk('multi_shift_sym', ['A', 'B'], {'A': 'hy', 'B': 'hy'}, [('A', 'B'), ('A', 'B', {'k': 'sym', 'i': 't2'})], tags=['multi', 'trigger', 'nocache']))
    a(mk('multi_weak', [['A', 'B']], {'A': 'hy', 'B': 'hy'}, [('A', 'B'), ('A', 'B', {'weak': True, 'i': 't2'})], tags=['multi', 'trigger', 'weak']))
    a(mk('multi_tb', ['A', 'B'], {'A': 'tb', 'B': 'tb'}, [('A', 'B'), ('A', 'B', {'k': 1, 'i': 'm2'})], tags=['multi', 'data']))
    # --- four simulators: two routes between one pair, one of which leaves the group
    a(mk('tworoutes', [['A', 'D', 'C'], 'B'], {'A': 'ev', 'B': 'ev', 'C': 'ev', 'D': 'ev'},
         [('A', 'C'), ('A', 'B'), ('B', 'D'), ('D', 'C', {'weak': True})], init={'A': 0}, tags=['groups', 'delay', 'four']))
    # a weak loop A <-> B in a group whose member D is fed by A directly and through C outside the group (the route through C
    # forgets the sub-step: D's first sub-step needs A to have left the time step)
    a(mk('lazyroutes', [['A', 'B', 'D'], 'C'], {'A': 'ev', 'B': 'ev', 'C': 'ev', 'D': 'ev'},
         [('A', 'B'), ('B', 'A', {'weak': True}), ('A', 'D'), ('A', 'C'), ('C', 'D', {'i': 't2'})], init={'A': 0}, tags=['groups', 'delay', 'four', 'weak']))
    a(mk('tworoutes_flat', ['A', 'D', 'C', 'B'], {'A': 'ev', 'B': 'ev', 'C': 'ev', 'D': 'ev'},
         [('A', 'C'), ('A', 'B'), ('B', 'D'), ('D', 'C')], init={'A': 0}, tags=['delay', 'four']))
    return T


def by_name(name):
    for t in curated() + (generated() if name.startswith('g2.') else []) + (generated_multi() if name.startswith('gm.') else []) + (generated3() if name.startswith('g3.') else []):
        if t['name'] == name:
            return t
    raise KeyError(name)


def sync_masks(topo, mode='all'):
    s = sids(topo)
    if mode == 'all':
        for r in range(len(s) + 1):
            for c in itertools.combinations(s, r):
                yield list(c)
    elif mode == 'extremes':
        yield []
        yield list(s)
    elif mode == 'async':
        yield []
    elif mode == 'sync':
        yield list(s)
    elif mode == 'sync+one':      # all synchronous, and each single asynchronous simulator
        yield list(s)
        for x in s:
            yield [y for y in s if y != x]


# ---------------------------------------------------------------------------
# generated family: all two-simulator topologies over a small alphabet

PLACEMENTS2 = {'root': ['A', 'B'], 'same': [['A', 'B']], 'a_in': [['A'], 'B'], 'b_in': ['A', ['B']], 'sib': [['A'], ['B']], 'nest': [['A', ['B']]]}


def _edge_opts(st, dt, weak_ok):
    """connection alternatives src->dst: None or opts dict"""
    outs = ['p'] if st == TB else (['e'] if st == EV else ['p', 'e'])
    ins = ['m'] if dt == TB else (['t'] if dt == EV else ['t', 'm'])
    res = [None]
    for o in outs:
        for i in ins:
            if o == 'e' and i == 'm':
                continue      # event output into a non-trigger input: mosaik warns against it (lenient in the reference)
            for kind in ('plain', 'shift', 'weak'):
                if kind == 'weak' and not weak_ok:
                    continue
                d = {'o': o, 'i': i}
                if kind == 'shift':
                    d['k'] = 1
                if kind == 'weak':
                    d['weak'] = True
                res.append(d)
    return res


def generated():
    """every two-simulator topology: 3x3 types x 6 placements x (A->B alternative) x (B->A alternative), at least one
    connection, accepted by the reference cycle rule (a cycle needs a shifted edge or a weak edge inside the common group)"""
    out = []
    for ta in ('tb', 'ev', 'hy'):
        for tb_ in ('tb', 'ev', 'hy'):
            for pname, tree in PLACEMENTS2.items():
                weak_ok = pname in ('same', 'nest')
                for ab in _edge_opts(SHORT[ta], SHORT[tb_], weak_ok):
                    for ba in _edge_opts(SHORT[tb_], SHORT[ta], weak_ok):
                        if ab is None and ba is None:
                            continue
                        if ab is not None and ba is not None:
                            resolved = any(('k' in e) or e.get('weak') for e in (ab, ba))
                            if not resolved:
                                continue
                        edges = []
                        if ab is not None:
                            edges.append(('A', 'B', ab))
                        if ba is not None:
                            edges.append(('B', 'A', ba))
                        init = {}
                        # event-based simulators need an initial event somewhere to do anything
                        if ta == 'ev' and (tb_ == 'ev' or ab is not None and ba is None):
                            init['A'] = 0
                        if tb_ == 'ev' and ta == 'ev' and ab is None:
                            init = {'B': 0}

                        def tag(e):
                            if e is None:
                                return '-'
                            return e['o'] + e['i'] + ('s' if 'k' in e else ('w' if e.get('weak') else ''))
                        name = f'g2.{ta}{tb_}.{pname}.{tag(ab)}.{tag(ba)}'
                        tags = ['generated']
                        if any(e and e.get('weak') for e in (ab, ba)):
                            tags.append('weak')
                        out.append(mk(name, tree, {'A': ta, 'B': tb_}, edges, init=init, tags=tags))
    return out


def generated_multi():
    """two parallel connections A->B with different delays (plain / shifted / weak, both orders), same output and input kind
    (the second one into the second attribute of that kind), optionally a shifted back edge B->A"""
    out = []
    kinds = {'plain': {}, 'shift': {'k': 1}, 'shift2': {'k': 2}, 'weak': {'weak': True}}
    for ta in ('tb', 'ev', 'hy'):
        for tb_ in ('tb', 'ev', 'hy'):
            st, dt = SHORT[ta], SHORT[tb_]
            outs = ['p'] if st == TB else (['e'] if st == EV else ['p', 'e'])
            ins = ['m'] if dt == TB else (['t'] if dt == EV else ['t', 'm'])
            for pname, tree in PLACEMENTS2.items():
                weak_ok = pname in ('same', 'nest')
                for o in outs:
                    for i in ins:
                        if o == 'e' and i == 'm':
                            continue
                        for k1, k2 in itertools.permutations(kinds, 2):
                            if ('weak' in (k1, k2)) and not weak_ok:
                                continue
                            if {k1, k2} == {'shift', 'shift2'} and pname != 'root':
                                continue
                            for back in (False, True):
                                if back and pname not in ('root', 'same'):
                                    continue
                                e1 = dict(kinds[k1], o=o, i=i)
                                e2 = dict(kinds[k2], o=o, i=i + '2')
                                edges = [('A', 'B', e1), ('A', 'B', e2)]
                                if back:
                                    bo, bi = default_kinds(dt, st)
                                    edges.append(('B', 'A', {'o': bo, 'i': bi, 'k': 1}))
                                init = {'A': 0} if ta == 'ev' else {}
                                name = f'gm.{ta}{tb_}.{pname}.{o}{i}.{k1}+{k2}' + ('.back' if back else '')
                                tags = ['generated', 'multi'] + (['weak'] if 'weak' in (k1, k2) else [])
                                out.append(mk(name, tree, {'A': ta, 'B': tb_}, edges, init=init, tags=tags))
    return out


def generated3():
    """three-simulator family: chain, fan-in, fan-out, shortcut and shifted ring over all 27 type combinations, each connection
    plain or shifted by 1 (rings need a shift)"""
    out = []
    shapes3 = {
        'chain': [('A', 'B'), ('B', 'C')],
        'fanin': [('A', 'C'), ('B', 'C')],
        'fanout': [('A', 'B'), ('A', 'C')],
        'short': [('A', 'B'), ('B', 'C'), ('A', 'C')],
        'ring': [('A', 'B'), ('B', 'C'), ('C', 'A')],
    }
    for ta in ('tb', 'ev', 'hy'):
        for tb_ in ('tb', 'ev', 'hy'):
            for tc in ('tb', 'ev', 'hy'):
                types = {'A': ta, 'B': tb_, 'C': tc}
                for sname, es in shapes3.items():
                    for shifts in itertools.product((0, 1), repeat=len(es)):
                        if sname == 'ring' and not any(shifts):
                            continue
                        if sname != 'ring' and sum(shifts) > 1:
                            continue
                        edges = []
                        used = {}
                        for (u, v), k in zip(es, shifts):
                            o, i = default_kinds(SHORT[types[u]], SHORT[types[v]])
                            # a second connection into the same simulator uses the second attribute of its kind
                            n = used.get(v, 0)
                            used[v] = n + 1
                            opts = {'o': o, 'i': i + ('2' if n else '')}
                            if k:
                                opts['k'] = 1
                            edges.append((u, v, opts))
                        init = {}
                        srcs = {u for u, v in es}
                        dsts = {v for u, v in es}
                        for sid, t in types.items():
                            if t == 'ev' and (sid not in dsts or sname == 'ring' and sid == 'A'):
                                init[sid] = 0
                        name = f"g3.{ta}{tb_}{tc}.{sname}.{''.join(map(str, shifts))}"
                        out.append(mk(name, ['A', 'B', 'C'], types, edges, init=init, tags=['generated', 'three']))
    return out

import mosaik, mosaik_api_v3
class H(mosaik_api_v3.Simulator):
    def __init__(self):
        super().__init__({'type': 'hybrid', 'models': {'M': {'public': True, 'params': [], 'attrs': ['a']}}})
    def init(self, sid, time_resolution):
        self.steps = []; return self.meta
    def create(self, num, model):
        return [{'eid': 'e', 'type': model}]
    def step(self, time, inputs, max_advance):
        self.steps.append(time); return time + 4
    def get_data(self, outputs):
        return {}
sims = {}
class H2(H):
    def init(self, sid, time_resolution):
        sims[sid] = self; return super().init(sid, time_resolution)
w = mosaik.World({'H': {'python': '__main__:H2'}}, skip_greetings=True)
w.start('H', sim_id='H').M()
w.set_initial_event('H', 3)
w.run(until=10, print_progress=False)
print('hybrid with step size 4 and an initial event at 3 was stepped at', sims['H'].steps, '(demanded: 0, 3, 4, 7, 8)')

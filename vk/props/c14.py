"""C14 Fault containment and clean shutdown."""
from vk import common, sysrun
from vk.kernels import c14 as K


def run(rep, tier, seed, args):
    jobs = K.jobs(tier)
    rep.rule = ('one case = one explored path of the real World.run() in which one simulator (enumerated) fails at a request index chosen by the solver '
                '(a symbolic index compared with the request counter: setup_done, each step, each get_data), fault kind and stage enumerated, all reply orders '
                'including replies delivered during shutdown; non-trivial = the fault actually fired on the path')
    rep.bounds = {'simulators': '2 (thorough 3)', 'steps': 'K=2', 'fault kinds': ['exception in the handler', 'ConnectionResetError from send', 'IncompleteReadError from send'],
                  'stages': 'failure instead of the reply (after the latency) / at send time',
                  'outside': 'process death, sockets, the reader task of RemoteProxy, wall-clock promptness (decided as: finitely many deliveries)'}
    rep.assumptions = list(sysrun.STUBS) + ['a closed connection is modelled by the exceptions a RemoteProxy.send() raises in that case (asyncio.IncompleteReadError from Channel.send, ConnectionResetError from the stream writer)',
                                           'pending work = asyncio tasks of the loop that are not done when World.shutdown() closes it']
    rep.add_jobs(common.run_jobs(jobs))

"""C16 Asynchronous requests (set_data / get_data)."""
from vk import common, sysrun, remote
from vk.kernels import c16 as K


def run(rep, tier, seed, args):
    jobs = K.jobs(tier)
    rep.rule = ('one case = one explored path of the real World.run() with A (time-based, symbolic step sizes) and 1-2 generator agents connected with '
                'async_requests=True: the solver decides per agent step whether get_data / set_data requests are made, all step sizes, and when each '
                'request (a parked latency point before it) and each reply is delivered; non-trivial = at least one set_data call or refused request on the path')
    rep.bounds = {'agents': '<= 2 (+ one agent without an async connection in the refusal runs)', 'steps': 'K <= 3 (thorough 4)', 'requests per agent step': '<= 1 get + 1 set (one run with 2)',
                  'remote': 'agent (and A) behind the in-memory remote transport (vk.remote): requests pass through RemoteProxy._handle_remote_requests and mosaik_api_v3.RemoteMosaikProxy; a refusal is observed as a failure reply of type ScenarioError',
                  'outside': 'sockets and JSON text, get_data values (only presence of the requested attribute is checked)'}
    rep.assumptions = list(sysrun.STUBS) + list(remote.STUBS) + ['a request of an in-process generator simulator is preceded by a parked latency point, i.e. it reaches mosaik at any later event-loop iteration (as a request from a remote agent would)']
    rep.add_jobs(common.run_jobs(jobs))

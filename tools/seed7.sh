#!/bin/bash
# usage: seed7.sh <seed id> <check ids...>   confirm a sub-agent's seed in its scratch worktree (/tmp/seed7/<id>, output in
# /tmp/seed_out/<id>), then run the quick checks against a scratch copy of /repo with the patch applied (never /repo itself)
S="$1"; shift
HERE="$(cd "$(dirname "$0")/.." && pwd)"
"$HERE/tools/confirmseed.sh" /tmp/seed_out/$S /tmp/seed7/$S
"$HERE/tools/trypatch.sh" /tmp/seed_out/$S/patch.diff "$@"

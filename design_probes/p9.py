import z3, time, sys, itertools
import symex2
from symex2 import Engine, SymBool, Violation
import mosaik.scenario as sc, mosaik.in_or_out_set as ios
from mosaik.in_or_out_set import OutSet
N = 4
NAMES = ['a', 'b', 'c', 'd']
class SymSet:
    """frozenset model: bit-vector over universe NAMES"""
    def __init__(self, bv): self.bv = bv
    @staticmethod
    def make(arg=()):
        if isinstance(arg, SymSet): return arg
        bv = 0
        for x in arg: bv |= 1 << NAMES.index(x)
        return SymSet(z3.BitVecVal(bv, N))
    def _o(self, o): return o.bv if isinstance(o, SymSet) else None
    def __or__(self, o):
        if not isinstance(o, SymSet): return NotImplemented
        return SymSet(self.bv | o.bv)
    def __and__(self, o):
        if not isinstance(o, SymSet): return NotImplemented
        return SymSet(self.bv & o.bv)
    def __sub__(self, o):
        if not isinstance(o, SymSet): return NotImplemented
        return SymSet(self.bv & ~o.bv)
    def __eq__(self, o):
        if not isinstance(o, SymSet): return NotImplemented
        return SymBool(self.bv == o.bv)
    def __ne__(self, o):
        if not isinstance(o, SymSet): return NotImplemented
        return SymBool(self.bv != o.bv)
    def __contains__(self, x):
        return bool(SymBool(z3.Extract(NAMES.index(x), NAMES.index(x), self.bv) == 1))
    def __iter__(self): return iter(['<symset>'])
    def __str__(self): return '<symset>'
    __hash__ = None
sc.frozenset = SymSet.make; ios.frozenset = SymSet.make

KEYS = ['attrs', 'non-trigger', 'trigger', 'persistent', 'non-persistent']
def harness(eng):
    desc = {}
    vars = {}
    for k in KEYS:
        if k in PRESENT:
            vars[k] = eng.fresh_bv(k, N); desc[k] = SymSet(vars[k])
    desc['any_inputs'] = ANY
    try:
        mi, ei, mo, eo = sc.parse_attrs(desc, TYPE)
    except ValueError as e:
        return ('rejected',)
    # obligation: outputs partition attrs (when attrs given)
    def bits(s): return s.bv if isinstance(s, SymSet) else None
    if 'attrs' in vars and isinstance(mo, SymSet) and isinstance(eo, SymSet):
        eng.check(z3.And((mo.bv | eo.bv) == vars['attrs'], (mo.bv & eo.bv) == 0), 'outputs partition attrs')
    kind = tuple(type(x).__name__ for x in (mi, ei, mo, eo))
    return ('accepted', kind)

if __name__ == '__main__':
    t0 = time.time(); tot = 0; from collections import Counter; c = Counter()
    for TYPE in ['time-based', 'event-based', 'hybrid']:
        for ANY in [False, True]:
            for r in range(6):
                for PRESENT in itertools.combinations(KEYS, r):
                    eng = Engine()
                    res, complete = eng.explore(harness)
                    assert complete
                    tot += eng.paths
                    for x in res: c[x[0] if x[0] != 'ok' else x[1][0]] += 1
    print('cases', 3*2*32, 'paths', tot, c, 'time', round(time.time()-t0, 1))

"""Probe: add C10 (lazy) and C07 (max_advance provenance) rules to the reference; run over repo scenarios."""
import sys, copy
import ref
from ref import *
class Ref3(Ref):
    def __init__(self):
        super().__init__(); self.past = {}; self.promises = {}; self.lazy = True; self.c07 = 0; self.c10 = 0
    def zero_shift(self, c, tau):
        c0 = dict(c); c0['k'] = 0; c0['weak'] = False
        return self.shift(c0, tau)
    def on_step_begin(self, sid, time, inputs, max_advance):
        s = self.sims[sid]
        tau = min(s['demands']) if s['demands'] else None
        causes = list(s['demands'].get(tau, [])) if tau is not None else []
        # C10
        if self.lazy and tau is not None:
            for c in self.conns:
                if c['ss'] == sid and c['ds'] != sid:
                    b = self.sims[c['ds']]; lim = self.zero_shift(c, tau)
                    outstanding = list(b['demands']) + ([b['inflight']] if b['inflight'] is not None else [])
                    self.c10 += 1
                    for tb in outstanding:
                        if tb < lim and tb[0] < self.until:
                            self.alarm('C10.runahead', f'{sid}@{tau} begins while consumer {c["ds"]} has outstanding {tb}')
        # C07
        if tau is not None:
            for (te, m) in self.promises.get(sid, []):
                if te[0] < time and not (time > m):
                    self.c07 += 1
                    for cz in causes:
                        ok = False
                        if cz[0] == 'self' and cz[1] == sid and cz[2] >= te: ok = True
                        if cz[0] == 'trig':
                            anc = {(cz[1], cz[2])} | self.past.get((cz[1], cz[2]), set())
                            ok = any(x == sid and tx >= te for (x, tx) in anc)
                        if not ok: self.alarm('C07.external', f'{sid}@{tau} within promise ({te},{m}] caused by {cz}')
            p = set()
            for cz in causes:
                if cz[0] in ('self', 'trig'): p |= {(cz[1], cz[2])} | self.past.get((cz[1], cz[2]), set())
            self.past[(sid, tau)] = p
            self.promises.setdefault(sid, []).append((tau, max_advance))
            if not (max_advance <= self.until): self.alarm('C07.until', f'{sid} max_advance {max_advance} > until')
            has_trig = any(c['ds'] == sid and c['trigger'] for c in self.conns)
            if not has_trig and max_advance != self.until: self.alarm('C07.notrigger', f'{sid} max_advance {max_advance} != until')
        super().on_step_begin(sid, time, inputs, max_advance)
if __name__ == '__main__':
    from tests.scenarios.conftest import SIM_CONFIG
    import glob, os, importlib
    os.chdir('/repo'); tot = bad = c07 = c10 = 0
    for f in sorted(glob.glob('/repo/tests/scenarios/test_*.py')):
        src = open(f).read(); name = os.path.basename(f)[:-3]
        if 'Remote' in src or 'rt_factor' in src: continue
        mod = importlib.import_module('tests.scenarios.' + name)
        for cache in (True, False):
            ref.REF = Ref3(); w = RWorld(SIM_CONFIG, debug=True, cache=cache, skip_greetings=True)
            try: mod.test_scenario(w); ok = 'pass'
            except BaseException as e: ok = f'FAIL {type(e).__name__} {str(e)[:100]}'
            finally:
                try: w.shutdown()
                except Exception: pass
            tot += 1; c07 += ref.REF.c07; c10 += ref.REF.c10
            if ref.REF.alarms or ok != 'pass':
                bad += 1; print(name, cache, ok)
                for a in ref.REF.alarms[:5]: print('    ', a)
    print('runs', tot, 'bad', bad, 'C07 window checks', c07, 'C10 checks', c10)

"""C18 Bulk connection helpers distribute connections as documented."""
from vk import common
from vk.kernels import c18 as K


def run(rep, tier, seed, args):
    jobs = K.jobs(tier)
    q = tier == 'quick'
    rep.rule = ('one case = one path of the real connect_randomly / connect_many_to_one for one (|src|, |dest|, evenly, max_connects kind): a complete '
                'assignment of the RNG outcomes (randint results symbolic then concretised where used as an index, shuffle permutations chosen by the '
                'engine) and of the comparisons with the symbolic max_connects; non-trivial = at least one source to connect')
    rep.bounds = {'sources': f'<= {4 if q else 7}', 'destinations': f'<= {3 if q else 4}', 'max_connects': 'inf or an unbounded symbolic int >= 1 under the documented precondition |src| <= |dest| * max_connects',
                  'outside': 'larger sets; entity objects other than hashable tokens; World.connect itself (recorded, not executed)'}
    rep.assumptions = ['mosaik.util.random is rebound to a solver-driven source (randint -> symbolic int in [a,b]; shuffle -> engine-chosen Fisher-Yates permutation); CPython\'s random is not executed',
                       'World.connect is a recorder', 'precondition |src| <= |dest|*max_connects assumed (the function asserts it)']
    rep.add_jobs(common.run_jobs(jobs))

"""exploratory scan (not a registered check): python tools/scan_generated.py <family g2|gm|g3> <mod> <off> [sync: all|none|extremes]"""
import sys, time, collections, json
sys.path.insert(0, '/verif')
from vk import topo as T, common
from vk.props import sysprops as S
if __name__ == '__main__':
    fam, mod, off = sys.argv[1], int(sys.argv[2]), int(sys.argv[3])
    mode = sys.argv[4] if len(sys.argv) > 4 else 'extremes'
    g = {'g2': T.generated, 'gm': T.generated_multi, 'g3': T.generated3}[fam]()
    sl = [t for i, t in enumerate(g) if i % mod == off]
    jobs = []
    for t in sl:
        for c in S.cfgs(t, 'thorough', K=2, masks='extremes', lazies=(True, False)):
            if mode == 'all' and c['sync'] != sorted(t['types']):
                continue
            if mode == 'none' and c['sync']:
                continue
            c['rules'] = ['C01', 'C02', 'C03', 'C05', 'C07', 'C10']
            jobs.append(S.job('X', t, c, budget_s=120))
    t0 = time.time(); res = common.run_jobs(jobs)
    known = common.load_known()
    print('topologies', len(sl), 'jobs', len(jobs), 'wall', round(time.time() - t0, 1), 'paths', sum(r['stats']['paths'] for r in res if not r['error']),
          'incomplete', sum(1 for r in res if not r['complete']), 'errors', sum(1 for r in res if r['error']))
    agg = collections.Counter(); ex = {}
    for r in res:
        if r['error']: print('ERR', r['id'], r['error'][-300:]); continue
        for v in r['violations']:
            k = None
            for p in ('C01', 'C02', 'C03', 'C05', 'C07', 'C10'):
                if v['rule'].startswith(p):
                    k = common.match_known(known, p, v, r)
            key = (v['rule'], r['params']['topo']['name'], k['id'] if k else 'UNLISTED', v['reproduced'])
            agg[key] += 1; ex.setdefault(key, (r['id'], v['msg'][:200]))
    for k, v in sorted(agg.items()):
        if k[2] == 'UNLISTED': print(k, v, ex[k])
    print('listed:', collections.Counter(k[2] for k in agg))

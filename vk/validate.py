"""Translator validation of the reference model (DESIGN.md 4.3): the repository's own in-process
scenario tests are executed through the OracleProxy with concrete values; their own assertions
(assert_graph / assert_inputs) must pass AND the reference monitors must stay silent.  An alarm on a
maintainer-blessed trace is by definition a bug of the reference (or a listed known finding)."""
from __future__ import annotations

import asyncio
import contextlib
import glob
import importlib
import os
import sys

import mosaik

from vk import engine as E
from vk import sysrun
from vk.refmodel import Ref, SENT


class PlainLoop(asyncio.SelectorEventLoop):
    active = False
    pending = ()

    def park(self, sid, kind):
        raise RuntimeError('synchronous validation run: nothing is parked')


REF = None


class RWorld(mosaik.World):
    """World that tells the reference model what the scenario script does."""
    _gstack = None
    _gid = 0

    def start(self, sim_name, sim_id=None, **kw):
        f = super().start(sim_name, sim_id=sim_id, **kw)
        if self._gstack is None:
            self._gstack = ['R']
        REF.add_sim(f._sid, list(self._gstack), self.sims[f._sid].type)
        return f

    @contextlib.contextmanager
    def group(self):
        if self._gstack is None:
            self._gstack = ['R']
        RWorld._gid += 1
        self._gstack.append(f'g{RWorld._gid}')
        with super().group():
            yield
        self._gstack.pop()

    def connect(self, src, dest, *attr_pairs, async_requests=False, time_shifted=False, initial_data={}, weak=False):
        super().connect(src, dest, *attr_pairs, async_requests=async_requests, time_shifted=time_shifted,
                        initial_data=initial_data, weak=weak)
        pairs = [(a, a) if isinstance(a, str) else tuple(a) for a in attr_pairs]
        for sa, da in pairs:
            persistent = sa in src.model_mock.measurement_outputs
            trigger = da in dest.model_mock.event_inputs
            init = initial_data.get(sa, SENT)
            needed = (not trigger) and (bool(time_shifted) or bool(weak))
            lenient = (not persistent and not trigger) or (init is not SENT and not needed)
            REF.add_conn(src.sid, src.eid, sa, dest.sid, dest.eid, da, k=int(time_shifted), weak=bool(weak), initial=init,
                         persistent=persistent, trigger=trigger, lenient=lenient)
        if async_requests:
            REF.add_conn(src.sid, src.eid, None, dest.sid, dest.eid, None, async_only=True)

    def set_initial_event(self, sid, time=0):
        super().set_initial_event(sid, time)
        REF.initial_event(sid, time)

    def run(self, until, *a, **kw):
        REF.start(until)
        REF.lazy = kw.get('lazy_stepping', True)
        self.loop.active = True
        try:
            r = super().run(until, *a, **kw)
            REF.on_end()
            return r
        finally:
            self.loop.active = False


def run(repo=None, verbose=False, only=None):
    """returns dict(runs=, steps=, input_checks=, alarms=[...], failures=[...], skipped=[...])"""
    global REF
    repo = repo or os.environ.get('VK_REPO', '/repo')
    if repo not in sys.path:
        sys.path.insert(0, repo)
    cwd = os.getcwd()
    os.chdir(repo)
    out = {'runs': 0, 'steps': 0, 'rule_evaluations': {}, 'alarms': [], 'failures': [], 'skipped': []}
    try:
        from tests.scenarios.conftest import SIM_CONFIG
        files = sorted(glob.glob(os.path.join(repo, 'tests/scenarios/test_*.py')))
        for f in files:
            name = os.path.basename(f)[:-3]
            if only and name != only:
                continue
            src = open(f).read()
            if 'Remote' in src or 'rt_factor' in src:
                out['skipped'].append(name)
                continue
            mod = importlib.import_module('tests.scenarios.' + name)
            for cache in (True, False):
                eng = E.ConcreteEngine({'vars': {}, 'choices': []})
                REF = Ref(eng, rules=('C01', 'C02', 'C03', 'C07', 'C10'))
                loop = PlainLoop()
                sysrun.CTX.clear()
                sysrun.CTX.update(eng=eng, loop=loop, K=10**6, until=None, ref=REF, log=[], sync=_All())
                E._set_engine(eng)
                try:
                    with sysrun.patched(sym_int_names=False), _quiet_tqdm():
                        w = RWorld(SIM_CONFIG, debug=True, cache=cache, skip_greetings=True, asyncio_loop=loop)
                        try:
                            mod.test_scenario(w)
                        except BaseException as e:  # noqa
                            out['failures'].append(f'{name} cache={cache}: {type(e).__name__}: {str(e)[:200]}')
                        finally:
                            try:
                                w.shutdown()
                            except Exception:
                                pass
                finally:
                    E._set_engine(None)
                out['runs'] += 1
                out['steps'] += REF.nsteps
                for k, v in REF.evals.items():
                    out['rule_evaluations'][k] = out['rule_evaluations'].get(k, 0) + v
                for v in eng.violations:
                    out['alarms'].append({'scenario': name, 'cache': cache, 'rule': v.rule, 'msg': v.msg[:300], 'extra': v.extra})
    finally:
        os.chdir(cwd)
    return out


@contextlib.contextmanager
def _quiet_tqdm():
    import mosaik.scenario as sc
    real = sc.tqdm

    def quiet(*a, **k):
        k['disable'] = True
        return real(*a, **k)
    sc.tqdm = quiet
    try:
        yield
    finally:
        sc.tqdm = real


class _All:
    """every simulator answers synchronously"""
    def __contains__(self, x):
        return True


if __name__ == '__main__':
    import json
    import warnings
    warnings.simplefilter('ignore')
    from loguru import logger
    logger.remove()
    r = run()
    print(json.dumps({k: v for k, v in r.items() if k not in ('alarms',)}, indent=1, default=str))
    for a in r['alarms']:
        print('ALARM', a)

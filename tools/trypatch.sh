#!/bin/bash
# usage: trypatch.sh <patch.diff> <check ids...>   runs the quick checks against a scratch copy of /repo with the patch applied
P="$1"; shift
HERE="$(cd "$(dirname "$0")/.." && pwd)"
W=$(mktemp -d /tmp/vktry.XXXXXX)
git -C /repo worktree add -q --detach "$W/r" HEAD || exit 9
if git -C "$W/r" apply "$P"; then
  for c in "$@"; do
    VK_REPO="$W/r" VK_OUT="$W/o" "$HERE/run_check.sh" "$c" "${TIER:-quick}" > "$W/out" 2>&1; e=$?
    echo "check $c: exit=$e violations=$(grep -c '^VIOLATION' "$W/out") $(grep -m1 'rule=' "$W/out" | cut -c1-220)"
    grep "HARNESS-ERROR" "$W/out" | head -2 | cut -c1-300
  done
else echo "patch does not apply"; fi
git -C /repo worktree remove --force "$W/r"; rm -rf "$W"

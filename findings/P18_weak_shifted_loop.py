"""weak + time-shifted loop inside a group: one sub-step per time step; does the loop guard trip?"""
import sys
import mosaik, mosaik_api_v3

class S(mosaik_api_v3.Simulator):
    def __init__(self):
        super().__init__({'type': 'hybrid', 'models': {'M': {'public': True, 'params': [], 'attrs': ['i', 'o'], 'trigger': ['i'], 'non-persistent': ['o']}}})
    def init(self, sid, time_resolution, stepper=False):
        self.sid = sid; self.stepper = stepper; self.steps = []
        return self.meta
    def create(self, num, model):
        return [{'eid': 'e', 'type': model}]
    def step(self, time, inputs, max_advance):
        self.steps.append(time); self.t = time
        return time + 1 if self.stepper else None
    def get_data(self, outputs):
        return {'e': {'o': self.t}}

def run(grouped, M, until):
    w = mosaik.World({'S': {'python': '__main__:S'}}, skip_greetings=True, max_loop_iterations=M)
    if grouped:
        with w.group():
            a = w.start('S', sim_id='A', stepper=True).M(); b = w.start('S', sim_id='B').M()
    else:
        a = w.start('S', sim_id='A', stepper=True).M(); b = w.start('S', sim_id='B').M()
    w.connect(a, b, ('o', 'i'), weak=True)
    w.connect(b, a, ('o', 'i'), time_shifted=True, initial_data={'o': 0})
    try:
        w.run(until=until, print_progress=False)
        return 'ok'
    except Exception as e:
        return f'{type(e).__name__}: {str(e)[:150]}'
for grouped in (True,):
    for M, until in ((3, 10), (100, 10), (100, 150)):
        print('grouped', grouped, 'M', M, 'until', until, '->', run(grouped, M, until))

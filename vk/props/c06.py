"""C06 Cycle detection is exact."""
from vk import common, sysrun
from vk.kernels import c06 as K


def run(rep, tier, seed, args):
    jobs = K.jobs(tier, seed)
    rep.rule = ('one case = one path through World.connect()/World.run(until=1) for one group placement and one edge structure (per ordered '
                'pair: none / edge shifted by k / weak edge / both) with every shift amount k an unbounded symbolic int >= 0 (k = 0 is the plain '
                'connection); non-trivial = at least one connection; paths are distinct (different structure or disjoint conditions on the shifts)')
    rep.bounds = {'simulators': '2 (all structures incl. self-connections; quick: without pairs that carry both a shifted and a weak edge), 3 (no self-pairs; quick: a rotating sixteenth of the structures selected by VERIF_SEED, '
                                'thorough: a rotating half), the weak-cycle family for every three-simulator tree always complete, 4-simulator two-route family; thorough also 4-rings with <= 1 chord', 'group_depth': '<= 3', 'shifts': 'unbounded symbolic',
                  'outside': 'more simulators; async_requests edges; data-carrying runs (until=1, simulators produce nothing)'}
    rep.assumptions = [sysrun.STUBS[0], sysrun.STUBS[2], sysrun.STUBS[4], 'cache=False (with the cache on delays become dict keys and are concretised)',
                       'oracle: enumerate the simple cycles of the chosen multigraph; a cycle is unresolved iff every hop has a connection that is '
                       'neither shifted (k > 0) nor a weak connection whose whole cycle stays inside the closest common group of its two ends']
    rep.add_jobs(common.run_jobs(jobs))

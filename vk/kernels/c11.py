"""C11 kernel: connection validation and group scoping, through the public API.

Two symbolic simulators in an enumerated group placement; the attribute pair, the flags
and the presence of initial data are chosen by the engine, time_shifted is False / True /
an unbounded symbolic int >= 0.  After connect() (accepted or rejected) the world is run
and monitored with only the ACCEPTED connections known to the reference, so a rejected
pair that leaves data-flow behind shows up as an unexpected input, step or wait."""
from __future__ import annotations

import mosaik
from mosaik.exceptions import ScenarioError

from vk import sysrun
from vk.engine import PathCut
from vk.refmodel import Ref, SENT
from vk.kernels.c06 import paths_of, common
from vk import topo as T

PLACEMENTS = [['A', 'B'], [['A', 'B']], [['A'], 'B'], ['A', ['B']], [['A'], ['B']], [['A', ['B']]], [[['A'], 'B']],
              [[['A'], ['B']]]]


def connect_case(tree, st, dt, any_inputs, second_pair=False, cache=False, hier=0, prior=False):
    """hier: 0 = flat entities; 1 / 2 = the connected entity 'e' is the second / first child of a parent entity whose other child
    is of another model type (X, whose only attribute is the name 'zz' that model M does not have)"""
    paths = paths_of(tree)
    st, dt = T.SHORT[st], T.SHORT[dt]

    def h(eng):
        loop = sysrun.OracleLoop(eng)
        log = []
        until = 2
        ref = Ref(eng, rules=('C02',), lazy=True)
        ref.prefix = 'C11.'
        rejected_slots = []
        accepted_src = []

        def behaviour(sim, what, k, time, arg, max_advance):
            # deterministic, talkative simulators: step every time unit, produce every requested output
            if what == 'step':
                return time + 1
            return {eid: {a: f'{sim.sid}#{k}.{a}' for a in attrs} for eid, attrs in arg.items()}

        def hook(kind, sid, f, payload):
            if kind == 'request' and f == 'get_data' and sid == 'A' and loop.active:
                asked = {a for attrs in payload[0].values() for a in attrs}
                eng.check(asked <= set(accepted_src), 'C11.residue',
                          f'outputs {sorted(asked - set(accepted_src))} of a rejected pair are still requested from the source', {'fp': ['residue-req']})
            if kind == 'request' and f == 'step' and sid == 'B' and loop.active:
                inputs = payload[1]
                for (de, da_, src) in rejected_slots:
                    present = src in inputs.get(de, {}).get(da_, {})
                    eng.check(not present, 'C11.residue', f'rejected pair still delivers data into {de}.{da_} from {src}: {inputs}', {'fp': ['residue']})
        sysrun.CTX.clear()
        sysrun.CTX.update(eng=eng, loop=loop, K=8, until=until, ref=ref, log=log, sync={'A', 'B'}, future_outputs=False,
                          behaviour=behaviour, hook=hook)
        src_pool = [a for a in ('op', 'oe') if T.out_attr(st, 'p' if a == 'op' else 'e') == a] + ['zz']
        dst_pool = [a for a in ('it', 'im') if T.in_attr(dt, 't' if a == 'it' else 'm') == a] + ['zz']
        sa = src_pool[eng.choose(len(src_pool), 'src_attr')]
        da = dst_pool[eng.choose(len(dst_pool), 'dst_attr')]
        weak = bool(eng.choose(2, 'weak'))
        tsk = eng.choose(3, 'ts_kind')
        ts = [False, True, None][tsk]
        if ts is None:
            ts = eng.int('k', 0, 3 if cache else None)   # with the cache on the delay becomes a dict key (concretised): keep it finite
        has_init = bool(eng.choose(2, 'initial'))
        outcome = None
        with sysrun.patched():
            w = mosaik.World({'S': {'python': 'vk.sysrun:SymSim'}}, skip_greetings=True, asyncio_loop=loop, cache=cache)
            try:
                ents = {}

                def rec(t, path):
                    for it in t:
                        if isinstance(it, (list, tuple)):
                            with w.group():
                                rec(it, None)
                        else:
                            typ = st if it == 'A' else dt
                            if hier:
                                par = w.start('S', sim_id=it, typ=typ, any_inputs=(any_inputs and it == 'B'), hier=hier).M()
                                ents[it] = [c for c in par.children if c.eid == 'e'][0]
                            elif prior:
                                two = w.start('S', sim_id=it, typ=typ, any_inputs=(any_inputs and it == 'B')).M.create(2)
                                ents[it], ents[it + 'f'] = two[0], two[1]
                            else:
                                ents[it] = w.start('S', sim_id=it, typ=typ, any_inputs=(any_inputs and it == 'B')).M()
                            ref.add_sim(it, paths[it], typ)
                rec(tree, None)
                kw = {}
                if ts is not False:
                    kw['time_shifted'] = ts
                if weak:
                    kw['weak'] = True
                if has_init:
                    kw['initial_data'] = {sa: 'INIT'}
                pairs = [(sa, da)]
                good2 = None
                if second_pair:
                    # a second, valid pair in the same call (if one exists that differs from the first)
                    g_sa = 'op' if st != T.EV else 'oe'
                    g_da = 'it' if dt != T.TB else 'im'
                    if g_da != da:
                        good2 = (g_sa, g_da)
                        pairs.append(good2)
                        if has_init:
                            kw['initial_data'][g_sa] = 'INIT2'
                # ---- oracle: the four rejection reasons of the statement
                src_ok = sa != 'zz'
                dst_ok = da != 'zz' or any_inputs
                shifted = ts if ts is not False else False   # bool / SymInt
                is_shifted = (shifted is True) or (shifted is not False and shifted is not True and shifted > 0)

                def trig(attr):
                    if dt == T.EV:
                        return True
                    if dt == T.TB:
                        return False
                    return attr == 'it'
                cg = common(paths['A'], paths['B'])
                weak_bad = weak and len(cg) < 2

                def pair_reject(p_sa, p_da):
                    needs = (weak or is_shifted)
                    no_init = not has_init
                    r = (p_sa == 'zz') or (p_da == 'zz' and not any_inputs)
                    if r:
                        return True
                    if weak_bad:
                        return True
                    if not trig(p_da) and no_init:
                        return needs      # bool or SymBool
                    return False
                exp = [pair_reject(*p) for p in pairs]
                from vk.tt import b_or, b_not
                exp_any = b_or(*exp)
                fp = [str(tree), st, dt, any_inputs, sa, da, weak, tsk, has_init, second_pair, hier, prior]
                desc = f'tree={tree} {st}->{dt} any_inputs={any_inputs} pair={sa}->{da} weak={weak} time_shifted={ts} initial={has_init} pairs={pairs}' + (f' hierarchical entities (variant {hier})' if hier else '') + (' after a plain connect of the same attribute pair between two other entities of the same models' if prior else '')
                if prior and sa != 'zz' and (da != 'zz' or any_inputs):
                    # the earlier, plain and valid connection of the same attribute pair between the f entities
                    w.connect(ents['Af'], ents['Bf'], (sa, da))
                    accepted_src.append(sa)
                    ref.add_conn('A', 'f', sa, 'B', 'f', da, k=0, weak=False, initial=SENT, persistent=(sa == 'op' or st == T.TB), trigger=trig(da),
                                 lenient=(not (sa == 'op' or st == T.TB) and not trig(da)))
                try:
                    w.connect(ents['A'], ents['B'], *pairs, **kw)
                    outcome = 'accepted'
                    eng.check(b_not(exp_any), 'C11.accept', 'connect() accepted a pair the rule rejects: ' + desc, {'fp': fp})
                except ScenarioError as e:
                    outcome = 'rejected'
                    eng.check(exp_any, 'C11.reject', f'connect() rejected although none of the four reasons applies: {desc}: {str(e)[:150]}', {'fp': fp})
                except AssertionError as e:
                    outcome = 'assert'
                    eng.alarm('C11.crash', f'connect() failed with AssertionError {e}: ' + desc, {'fp': fp})
                # the reference knows exactly the pairs that must have been established
                for (p_sa, p_da), rej in zip(pairs, exp):
                    if rej is True or (rej is not False and bool(rej)) or weak_bad:
                        rejected_slots.append(('e', p_da, 'A.e'))
                        continue
                    accepted_src.append(p_sa)
                    persistent = p_sa == 'op' or st == T.TB
                    trigger = trig(p_da)
                    init = SENT
                    if has_init:
                        init = 'INIT' if p_sa == sa else 'INIT2'
                    k = 0
                    if ts is True:
                        k = 1
                    elif ts is not False:
                        k = ts
                    needed = (not trigger) and (weak or is_shifted is True or (is_shifted is not False and bool(is_shifted)))
                    lenient = (not persistent and not trigger) or (init is not SENT and not needed)
                    ref.add_conn('A', 'e', p_sa, 'B', 'e', p_da, k=k, weak=weak, initial=init, persistent=persistent,
                                 trigger=trigger, lenient=lenient)
                if outcome != 'assert':
                    ref.start(until)
                    loop.active = True
                    try:
                        w.run(until=until, print_progress=False)
                        ref.on_end()
                        run_outcome = 'done'
                    except sysrun.Deadlock:
                        run_outcome = 'deadlock'
                    except ScenarioError as e:
                        run_outcome = 'cycle'   # only possible for self-dependencies; not in this harness
                    except (AssertionError, mosaik.exceptions.SimulationError) as e:
                        run_outcome = f'exc:{type(e).__name__}:{e}'
                    finally:
                        loop.active = False
                    if run_outcome != 'done':
                        eng.alarm('C11.run', f'run after connect ({outcome}) ended with {run_outcome}: ' + desc, {'fp': fp})
            finally:
                if not loop.is_closed():
                    loop.close()
        return (outcome, {'nontrivial': True, 'steps': ref.nsteps})
    return h


def independence(tree, st, dt):
    """a connect() that is rejected as a whole must leave the two simulators independent: under the schedule that always
    delivers A's replies first, A performs all its steps before any reply of B is delivered - and vice versa.  (A wait left
    behind by a rejected pair shows up as B's reply being needed while A is unfinished.)"""
    paths = paths_of(tree)
    st, dt = T.SHORT[st], T.SHORT[dt]

    def h(eng):
        until = 2
        sa = T.out_attr(st, 'p') or T.out_attr(st, 'e')
        da_pool = [a for a in ('it', 'im') if T.in_attr(dt, 't' if a == 'it' else 'm') == a]
        da = da_pool[eng.choose(len(da_pool), 'dst_attr')]
        weak = bool(eng.choose(2, 'weak'))
        shifted = bool(eng.choose(2, 'shifted'))
        has_init = bool(eng.choose(2, 'initial'))
        bad_attr = bool(eng.choose(2, 'bad_attr'))     # use a non-existing source attribute instead
        cg = common(paths['A'], paths['B'])
        trig = (dt == T.EV) or (dt == T.HY and da == 'it')
        rejected_expected = bad_attr or (weak and len(cg) < 2) or ((weak or shifted) and not trig and not has_init)
        if not rejected_expected:
            return ('accepted-case', {'nontrivial': False})
        fp = [str(tree), st, dt, da, weak, shifted, has_init, bad_attr]
        desc = f'tree={tree} {st}->{dt} pair={"zz" if bad_attr else sa}->{da} weak={weak} time_shifted={shifted} initial={has_init}'
        results = {}
        for prefer, other in (('A', 'B'), ('B', 'A')):
            loop = sysrun.OracleLoop(eng)
            loop.prefer = prefer
            begun = {'A': 0, 'B': 0}
            seen = {'needed_other': None}

            def behaviour(sim, what, k, time, arg, max_advance):
                if what == 'step':
                    return time + 1
                return {eid: {a: f'{sim.sid}#{k}.{a}' for a in attrs} for eid, attrs in arg.items()}

            def hook(kind, sid, f, payload):
                if kind == 'request' and f == 'step' and loop.active:
                    begun[sid] += 1

            def on_deliver(sid, prefer=prefer, begun=begun, seen=seen):
                if sid != prefer and seen['needed_other'] is None:
                    seen['needed_other'] = begun[prefer]
            loop.on_deliver = on_deliver
            sysrun.CTX.clear()
            sysrun.CTX.update(eng=eng, loop=loop, K=8, until=until, ref=None, log=[], sync=set(), future_outputs=False,
                              behaviour=behaviour, hook=hook)
            with sysrun.patched():
                w = mosaik.World({'S': {'python': 'vk.sysrun:SymSim'}}, skip_greetings=True, asyncio_loop=loop, cache=True)
                try:
                    ents = {}

                    def rec(t):
                        for it in t:
                            if isinstance(it, (list, tuple)):
                                with w.group():
                                    rec(it)
                            else:
                                ents[it] = w.start('S', sim_id=it, typ=st if it == 'A' else dt).M()
                    rec(tree)
                    kw = {}
                    if shifted:
                        kw['time_shifted'] = True
                    if weak:
                        kw['weak'] = True
                    if has_init:
                        kw['initial_data'] = {sa: 'INIT'}
                    try:
                        w.connect(ents['A'], ents['B'], ('zz' if bad_attr else sa, da), **kw)
                        return ('not-rejected', {'nontrivial': False})     # judged by connect_case
                    except ScenarioError:
                        pass
                    loop.active = True
                    try:
                        w.run(until=until, print_progress=False)
                        out = 'done'
                    except sysrun.Deadlock:
                        out = 'deadlock'
                    except Exception as e:  # noqa
                        out = f'exc:{type(e).__name__}'
                    finally:
                        loop.active = False
                finally:
                    if not loop.is_closed():
                        loop.close()
            ptype = st if prefer == 'A' else dt
            expected_steps = 0 if ptype == T.EV else until      # deterministic behaviour: one step per time unit; event-based: never triggered
            needed = seen['needed_other']
            ok = out == 'done' and (needed is None or needed >= expected_steps)
            eng.check(ok, 'C11.wait', f'after the rejected connect() {prefer} could not perform its {expected_steps} steps on its own: a reply of {other} was '
                      f'needed after {needed} step(s) of {prefer} (run: {out}): {desc}', {'fp': fp + [prefer]})
            results[prefer] = (out, needed)
        return ('rejected', {'nontrivial': True, 'results': str(results)})
    return h


def jobs(tier):
    out = []
    q = tier == 'quick'
    types = ['tb', 'ev', 'hy']
    for ti, tree in enumerate(PLACEMENTS):
        for st in types:
            for dt in types:
                for anyi in (False, True):
                    for second in ((False,) if q and ti not in (0, 1) else (False, True)):
                        for cache in ((False,) if q else (False, True)):
                            if cache and False:
                                continue
                            out.append({'id': f'conn|t{ti}|{st}>{dt}|any={int(anyi)}|two={int(second)}|cache={int(cache)}',
                                        'harness': 'vk.kernels.c11:connect_case',
                                        'params': {'tree': tree, 'st': st, 'dt': dt, 'any_inputs': anyi, 'second_pair': second, 'cache': cache},
                                        'budget_s': 300})
    # a history of two connect() calls: the same attribute pair connected plainly between other entities first
    for ti, tree in enumerate(PLACEMENTS if not q else PLACEMENTS[:2] + PLACEMENTS[4:5]):
        for st in types:
            for dt in types:
                for anyi in (False, True) if not q else (False,):
                    out.append({'id': f'conn|t{ti}|{st}>{dt}|any={int(anyi)}|prior', 'harness': 'vk.kernels.c11:connect_case',
                                'params': {'tree': tree, 'st': st, 'dt': dt, 'any_inputs': anyi, 'prior': True}, 'budget_s': 300})
    # the connected entities are children (of mixed model types) of a parent entity
    for ti, tree in enumerate(PLACEMENTS if not q else PLACEMENTS[:2] + PLACEMENTS[4:5]):
        for st in types:
            for dt in types:
                for anyi in (False, True):
                    for hier in (1, 2):
                        out.append({'id': f'conn|t{ti}|{st}>{dt}|any={int(anyi)}|hier={hier}', 'harness': 'vk.kernels.c11:connect_case',
                                    'params': {'tree': tree, 'st': st, 'dt': dt, 'any_inputs': anyi, 'hier': hier}, 'budget_s': 300})
    for ti, tree in enumerate(PLACEMENTS):
        for st in types:
            for dt in types:
                out.append({'id': f'indep|t{ti}|{st}>{dt}', 'harness': 'vk.kernels.c11:independence', 'params': {'tree': tree, 'st': st, 'dt': dt},
                            'budget_s': 200})
    return out

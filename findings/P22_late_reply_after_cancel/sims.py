import sys, time
import mosaik_api_v3
class S(mosaik_api_v3.Simulator):
    def __init__(self):
        super().__init__({'type': 'time-based', 'models': {'M': {'public': True, 'params': [], 'attrs': ['a']}}})
    def init(self, sid, time_resolution, slow=0.0, fail_at=None, marker=None):
        self.slow = slow; self.fail_at = fail_at; self.marker = marker
        return self.meta
    def create(self, num, model):
        return [{'eid': 'e', 'type': model}]
    def step(self, time_, inputs, max_advance):
        time.sleep(self.slow)
        if self.fail_at is not None and time_ >= self.fail_at:
            raise RuntimeError('boom')
        return time_ + 1
    def get_data(self, outputs):
        return {'e': {'a': 1}}
    def finalize(self):
        if self.marker:
            open(self.marker, 'w').write('finalized')
if __name__ == '__main__':
    sys.exit(mosaik_api_v3.start_simulation(S()))

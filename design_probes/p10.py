import asyncio, sys, time, copy, warnings, selectors
import z3, symex2
from symex2 import Engine, SymInt, SymBool, SymReal, Violation, PathCut
import mosaik, mosaik_api_v3
from mosaik import simmanager, scheduler
from loguru import logger
logger.remove(); warnings.simplefilter('ignore')
CTX = {}
class FakeSelector(selectors._BaseSelectorImpl):
    def select(self, timeout=None): return []
class Deadlock(Exception): pass
class VLoop(asyncio.SelectorEventLoop):
    def __init__(self, eng):
        super().__init__(selector=FakeSelector()); self.eng = eng; self.now = 0; self.active = False; self.log = []; self.iters = 0
    def time(self): return self.now
    def _run_once(self):
        if self.active and not self._stopping:
            self.iters += 1
            if self.iters > 400: raise PathCut()
            live = [h for h in self._scheduled if not h._cancelled]
            if not self._ready:
                if not live: raise Deadlock()
                # advance clock to earliest live timer (+ symbolic lateness)
                import heapq
                when = min(live, key=lambda h: 0)._when if len(live) == 1 else sorted(live)[0]._when
                late = self.eng.fresh_real('late', 0) if CTX['late'] else 0
                self.eng.solver.add(late.e <= CTX['maxlate']) if CTX['late'] else None
                self.now = when + late
                self.log.append(('clock', self.now))
        super()._run_once()
scheduler.perf_counter = lambda: CTX['loop'].time()
scheduler.get_avg_progress = lambda sims, until: 0
scheduler.get_progress = lambda sims, until: 0
WARN = []
logger.add(lambda m: WARN.append(str(m)), level='WARNING')
META = {'api_version': '3.0', 'type': 'time-based', 'models': {'M': {'public': True, 'params': [], 'attrs': ['i', 'o']}}}
class Sim(mosaik_api_v3.Simulator):
    def __init__(self): super().__init__(copy.deepcopy(META))
    def init(self, sid, time_resolution): self.sid = sid; return self.meta
    def create(self, num, model): return [{'eid': 'e', 'type': model}]
    def step(self, time, inputs, max_advance):
        loop = CTX['loop']; eng = CTX['eng']
        loop.log.append(('step', self.sid, time, loop.now))
        # obligation: step t begins after rt_factor*(t-1)
        eng.check(loop.now > CTX['f'] * (time - 1) if not isinstance(time, int) or time > 0 else True, 'pacing')
        return time + 1
    def get_data(self, outputs): return {'e': {'o': 1}}
def scenario(eng):
    loop = VLoop(eng); del WARN[:]
    f = eng.fresh_real('f'); eng.solver.add(f.e > 0)
    CTX.update(eng=eng, loop=loop, f=f, late=LATE, maxlate=f.e / 4)
    w = mosaik.World({'S': {'python': '__main__:Sim'}}, skip_greetings=True, asyncio_loop=loop)
    try:
        if GROUP:
            with w.group(): a = w.start('S', sim_id='A').M()
        else: a = w.start('S', sim_id='A').M()
        loop.active = True
        try:
            w.run(until=3, rt_factor=f, print_progress=False)
            return ('done', len(WARN), list(loop.log))
        except Deadlock: return ('deadlock', list(loop.log))
        except (AssertionError, RuntimeError, TypeError) as e: return ('error', type(e).__name__, str(e)[:80], list(loop.log))
        finally: loop.active = False
    finally:
        if not loop.is_closed(): loop.close()
if __name__ == '__main__':
    LATE = sys.argv[1] == '1'; GROUP = sys.argv[2] == '1'
    sys.stderr = open('/dev/null', 'w')
    eng = Engine(); t0 = time.time()
    res, complete = eng.explore(scenario, budget_s=60)
    from collections import Counter
    print(sys.argv[1:], Counter((r[1][0], r[1][1]) if r[0] == 'ok' else r[0] for r in res), 'complete', complete, 'paths', eng.paths, 'time', round(time.time() - t0, 1))
    for r in res[:2]: print('  ', r if r[0] != 'ok' else r[1])

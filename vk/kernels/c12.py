"""C12 kernel: attribute classification (parse_attrs, parse_set_triple, OutSet algebra)
with symbolic attribute sets.

SymSet models `frozenset` over a universe of n named attributes as a bit-vector; the
name `frozenset` in mosaik.scenario and mosaik.in_or_out_set is bound to its factory
while a path runs.  Forks happen only where the real code compares sets.  In concrete
replay the unpatched code runs on real frozensets built from the script's bit masks.
"""
from __future__ import annotations

import contextlib
import itertools

import z3

from vk.engine import SymBool

NAMES = ['a', 'b', 'c', 'd', 'e', 'f', 'g', 'h']


class SymSet:
    """frozenset model: bit i set <=> NAMES[i] in the set."""
    __slots__ = ('bv', 'n')

    def __hash__(self):
        # a frozenset is hashable: the contents are concretised (one path per feasible value of the bit-vector)
        from vk import engine
        return hash(('SymSet', engine.current().concretize(z3.BV2Int(self.bv))))

    def __init__(self, bv, n):
        self.bv = bv
        self.n = n

    def _same(self, o):
        return isinstance(o, SymSet)

    def __or__(self, o):
        if not self._same(o):
            return NotImplemented
        return SymSet(z3.simplify(self.bv | o.bv), self.n)

    def __and__(self, o):
        if not self._same(o):
            return NotImplemented
        return SymSet(z3.simplify(self.bv & o.bv), self.n)

    def __sub__(self, o):
        if not self._same(o):
            return NotImplemented
        return SymSet(z3.simplify(self.bv & ~o.bv), self.n)

    def __eq__(self, o):
        if not self._same(o):
            return NotImplemented
        return SymBool(self.bv == o.bv)

    def __ne__(self, o):
        if not self._same(o):
            return NotImplemented
        return SymBool(self.bv != o.bv)

    def __contains__(self, x):
        if x not in NAMES[:self.n]:
            return False
        i = NAMES.index(x)
        return bool(SymBool(z3.Extract(i, i, self.bv) == 1))

    def __bool__(self):
        # truthiness of a frozenset: non-empty (forks on the bit-vector)
        return bool(SymBool(self.bv != 0))

    def __len__(self):
        from vk.engine import SymInt
        pc = z3.Sum([z3.If(z3.Extract(i, i, self.bv) == 1, 1, 0) for i in range(self.n)])
        return int(SymInt(pc))

    def __iter__(self):
        return iter(['<symbolic set>'])

    def __str__(self):
        return '<symbolic set>'

    __repr__ = __str__


def factory(n):
    def make(arg=()):
        if isinstance(arg, SymSet):
            return arg
        bv = 0
        for x in arg:
            bv |= 1 << NAMES.index(x)
        return SymSet(z3.BitVecVal(bv, n), n)
    return make


@contextlib.contextmanager
def patched(n, active):
    import mosaik.scenario as sc
    import mosaik.in_or_out_set as ios
    if not active:
        yield
        return
    f = factory(n)
    sc.frozenset = f
    ios.frozenset = f
    try:
        yield
    finally:
        del sc.frozenset
        del ios.frozenset


# -- a set value independent of representation: (cofinite?, bit-vector term) -------------

def as_pair(x, n):
    """(out, bv) for a SymSet / frozenset / OutSet"""
    from mosaik.in_or_out_set import OutSet
    if isinstance(x, OutSet):
        o, b = as_pair(x._set, n)
        assert o is False
        return True, b
    if isinstance(x, SymSet):
        return False, x.bv
    if isinstance(x, frozenset):
        v = 0
        for e in x:
            v |= 1 << NAMES.index(e)
        return False, z3.BitVecVal(v, n)
    raise TypeError(type(x))


def p_member(p, i):
    out, bv = p
    bit = z3.Extract(i, i, bv) == 1
    return z3.Not(bit) if out else bit


def p_generic(p):
    """membership of an element outside the named universe"""
    return z3.BoolVal(p[0])


def p_eq(p, q, n):
    """extensional equality"""
    if p[0] != q[0]:
        return z3.BoolVal(False)
    return p[1] == q[1]


def P_union(p, q, n):
    (po, pb), (qo, qb) = p, q
    if not po and not qo:
        return False, pb | qb
    if po and qo:
        return True, pb & qb
    if po:
        return True, pb & ~qb
    return True, qb & ~pb


def P_inter(p, q, n):
    (po, pb), (qo, qb) = p, q
    if not po and not qo:
        return False, pb & qb
    if po and qo:
        return True, pb | qb
    if po:
        return False, qb & ~pb
    return False, pb & ~qb


def P_diff(p, q, n):
    (po, pb), (qo, qb) = p, q
    # p - q = p & complement(q)
    return P_inter(p, (not qo, qb), n)


def P_empty(n):
    return False, z3.BitVecVal(0, n)


def P_is_empty(p, n):
    return p_eq(p, P_empty(n), n)


# -- oracle for parse_attrs ---------------------------------------------------------

def oracle_triple(U, A, B, n):
    """docstring rule of parse_set_triple on optional pairs: returns (reject_term, A, B)"""
    present = sum(x is not None for x in (U, A, B))
    if present < 2:
        return z3.BoolVal(True), None, None
    if U is None:
        U = P_union(A, B, n)
    if A is None:
        A = P_diff(U, B, n)
    if B is None:
        B = P_diff(U, A, n)
    ok = z3.And(P_is_empty(P_inter(A, B, n), n), p_eq(U, P_union(A, B, n), n))
    return z3.Not(ok), A, B


def oracle(desc_pairs, any_inputs, typ, n):
    """desc_pairs: {key: (False, bv)} for the present keys.  Returns (reject_term, [N, T, P, NP])."""
    attrs = desc_pairs.get('attrs')
    T = desc_pairs.get('trigger')
    N = desc_pairs.get('non-trigger')
    P = desc_pairs.get('persistent')
    NP = desc_pairs.get('non-persistent')
    U = (True, z3.BitVecVal(0, n)) if any_inputs else attrs
    empty = P_empty(n)
    if typ == 'time-based':
        if T is None:
            T = empty
    elif typ == 'event-based':
        if N is None:
            N = empty
    else:
        if T is None and N is None:
            N = U
    rej_in, N, T = oracle_triple(U, N, T, n)
    rejs = [rej_in]
    if N is not None:
        if typ == 'time-based':
            rejs.append(z3.Not(P_is_empty(T, n)))
        if typ == 'event-based':
            rejs.append(z3.Not(P_is_empty(N, n)))
    if typ == 'event-based':
        if P is None:
            P = empty
    else:
        if NP is None:
            NP = empty
    rej_out, P, NP = oracle_triple(attrs, P, NP, n)
    rejs.append(rej_out)
    if P is not None:
        if typ == 'time-based':
            rejs.append(z3.Not(P_is_empty(NP, n)))
        if typ == 'event-based':
            rejs.append(z3.Not(P_is_empty(P, n)))
    return z3.simplify(z3.Or(*rejs)), [N, T, P, NP], U


KEYS = ['attrs', 'non-trigger', 'trigger', 'persistent', 'non-persistent']


def parse(typ, any_inputs, present, n):
    """parse_attrs on a description whose present keys hold arbitrary subsets of the universe."""
    present = list(present)

    def h(eng):
        import mosaik.scenario as sc
        sym = eng.mode == 'sym'
        desc = {}
        pairs = {}
        for k in present:
            v = eng.bv(f'{k}', n)
            if sym:
                desc[k] = SymSet(v, n)
                pairs[k] = (False, v)
            else:
                desc[k] = [NAMES[i] for i in range(n) if (v >> i) & 1]
                pairs[k] = (False, z3.BitVecVal(v, n))
        desc['any_inputs'] = any_inputs
        rej, exp, U = oracle(pairs, any_inputs, typ, n)
        fp = [typ, any_inputs, present]
        with patched(n, sym):
            try:
                res = sc.parse_attrs(desc, typ)
            except ValueError as e:
                eng.check(rej, 'C12.reject', f'rejected although the description is consistent: {typ} any_inputs={any_inputs} keys={present}: {e}',
                          {'fp': fp})
                return ('rejected', {'nontrivial': True})
            eng.check(z3.Not(rej), 'C12.accept', f'accepted although the rule rejects: {typ} any_inputs={any_inputs} keys={present}',
                      {'fp': fp})
            got = [as_pair(x, n) for x in res]
            names = ['non-trigger', 'trigger', 'persistent', 'non-persistent']
            for nm, g, e in zip(names, got, exp):
                if e is None:
                    continue
                eng.check(p_eq(g, e, n), 'C12.result', f'{nm} set differs from the rule: {typ} any_inputs={any_inputs} keys={present}', {'fp': fp + [nm]})
            N, T, P, NP = got
            eng.check(P_is_empty(P_inter(N, T, n), n), 'C12.partition', 'trigger and non-trigger inputs overlap', {'fp': fp})
            eng.check(P_is_empty(P_inter(P, NP, n), n), 'C12.partition', 'persistent and non-persistent outputs overlap', {'fp': fp})
            if U is not None:
                eng.check(p_eq(P_union(N, T, n), U, n), 'C12.partition', 'trigger + non-trigger != inputs', {'fp': fp})
            if 'attrs' in pairs:
                eng.check(p_eq(P_union(P, NP, n), pairs['attrs'], n), 'C12.partition', 'persistent + non-persistent != attrs', {'fp': fp})
            for nm, g in zip(names, got):
                if nm in pairs:
                    eng.check(p_eq(g, pairs[nm], n), 'C12.given', f'explicitly given list {nm} was changed', {'fp': fp + [nm]})
            # ModelMock-style unions and membership as used by connect_one
            inp = as_pair(res[1] | res[0], n)
            outp = as_pair(res[3] | res[2], n)
            eng.check(p_eq(inp, P_union(T, N, n), n), 'C12.result', 'input_attrs union wrong', {'fp': fp})
            eng.check(p_eq(outp, P_union(NP, P, n), n), 'C12.result', 'output_attrs union wrong', {'fp': fp})
            for i in range(min(n, 2)):
                m = NAMES[i] in (res[1] | res[0])
                eng.check(z3.BoolVal(bool(m)) == p_member(inp, i), 'C12.member', f'membership of {NAMES[i]} in input_attrs', {'fp': fp})
            zz = 'zz_not_in_universe' in (res[1] | res[0])
            eng.check(z3.BoolVal(bool(zz)) == p_generic(inp), 'C12.member', 'membership of a foreign name in input_attrs', {'fp': fp})
        return ('accepted', {'nontrivial': True})
    return h


OPS = ['or', 'and', 'sub', 'eq']


def algebra(op, lout, rout, n):
    """one binary set operator on finite / co-finite operands with symbolic contents"""
    def h(eng):
        from mosaik.in_or_out_set import OutSet
        import mosaik.in_or_out_set as ios
        sym = eng.mode == 'sym'
        with patched(n, sym):
            def mkop(name, out):
                v = eng.bv(name, n)
                if sym:
                    base = SymSet(v, n)
                    pair = (out, v)
                else:
                    base = frozenset(NAMES[i] for i in range(n) if (v >> i) & 1)
                    pair = (out, z3.BitVecVal(v, n))
                return (OutSet(base) if out else base), pair
            L, lp = mkop('l', lout)
            R, rp = mkop('r', rout)
            fp = [op, lout, rout]
            if op == 'eq':
                r = L == R
                r = bool(r)
                eng.check(z3.BoolVal(r) == p_eq(lp, rp, n), 'C12.algebra', f'== disagrees with extensional equality ({fp})', {'fp': fp})
                r2 = bool(L != R)
                eng.check(z3.BoolVal(r2) == z3.Not(p_eq(lp, rp, n)), 'C12.algebra', f'!= disagrees with extensional inequality ({fp})', {'fp': fp})
                return ('ok', {'nontrivial': True})
            res = {'or': lambda: L | R, 'and': lambda: L & R, 'sub': lambda: L - R}[op]()
            exp = {'or': P_union, 'and': P_inter, 'sub': P_diff}[op](lp, rp, n)
            got = as_pair(res, n)
            for i in range(n):
                eng.check(p_member(got, i) == p_member(exp, i), 'C12.algebra', f'{op}: membership of {NAMES[i]} wrong ({fp})', {'fp': fp})
            eng.check(p_generic(got) == p_generic(exp), 'C12.algebra', f'{op}: membership of a foreign element wrong ({fp})', {'fp': fp})
            # the real __contains__ agrees, for the first named element and a foreign one
            m0 = NAMES[0] in res
            eng.check(z3.BoolVal(bool(m0)) == p_member(exp, 0), 'C12.algebra', f'{op}: __contains__ of result wrong ({fp})', {'fp': fp})
            mz = 'zz_not_in_universe' in res
            eng.check(z3.BoolVal(bool(mz)) == p_generic(exp), 'C12.algebra', f'{op}: __contains__ (foreign) of result wrong ({fp})', {'fp': fp})
        return ('ok', {'nontrivial': True})
    return h


def triple(mask, outs, n):
    """parse_set_triple directly, each of union/part_a/part_b absent or finite / co-finite"""
    def h(eng):
        from mosaik.in_or_out_set import OutSet, parse_set_triple
        sym = eng.mode == 'sym'
        with patched(n, sym):
            args = []
            pairs = []
            for j, nm in enumerate(('u', 'a', 'b')):
                if not mask[j]:
                    args.append(None)
                    pairs.append(None)
                    continue
                v = eng.bv(nm, n)
                if sym:
                    base, pv = SymSet(v, n), v
                else:
                    base, pv = frozenset(NAMES[i] for i in range(n) if (v >> i) & 1), z3.BitVecVal(v, n)
                args.append(OutSet(base) if outs[j] else base)
                pairs.append((bool(outs[j]), pv))
            rej, A, B = oracle_triple(pairs[0], pairs[1], pairs[2], n)
            rej = z3.simplify(rej)
            fp = [list(mask), list(outs)]
            try:
                ra, rb = parse_set_triple(*args)
            except ValueError:
                eng.check(rej, 'C12.triple', f'parse_set_triple rejected a consistent triple {fp}', {'fp': fp})
                return ('rejected', {'nontrivial': True})
            eng.check(z3.Not(rej), 'C12.triple', f'parse_set_triple accepted an inconsistent triple {fp}', {'fp': fp})
            eng.check(p_eq(as_pair(ra, n), A, n), 'C12.triple', f'part_a wrong {fp}', {'fp': fp})
            eng.check(p_eq(as_pair(rb, n), B, n), 'C12.triple', f'part_b wrong {fp}', {'fp': fp})
        return ('accepted', {'nontrivial': True})
    return h


import mosaik_api_v3

SEQ_META = {}


class MetaSim(mosaik_api_v3.Simulator):
    """an in-process simulator that announces the meta the harness prepared"""
    def __init__(self):
        super().__init__({'api_version': '3.0', 'type': 'time-based', 'models': {}})

    def init(self, sid, time_resolution, which=0):
        self.meta = SEQ_META[which]
        return self.meta

    def create(self, num, model):
        return [{'eid': f'{model}{i}', 'type': model} for i in range(num)]

    def step(self, time, inputs, max_advance):
        return time + 1

    def get_data(self, outputs):
        return {}


def start_seq(typ, any_inputs, present1, present2, n):
    """World.start() of simulators whose meta carries TWO model descriptions (contents symbolic), and of a second simulator
    with the two descriptions swapped: every description must be classified as if it were the only one (histories of length
    up to 4 of ModelMock construction in one process)."""
    def h(eng):
        import mosaik
        from vk import modstate
        modstate.reset_all()
        sym = eng.mode == 'sym'
        descs, pairs = [], []
        for j, present in enumerate((present1, present2)):
            d, pr = {'public': True, 'params': []}, {}
            for k in present:
                v = eng.bv(f'{k}{j + 1}', n)
                if sym:
                    d[k] = SymSet(v, n)
                    pr[k] = (False, v)
                else:
                    d[k] = [NAMES[i] for i in range(n) if (v >> i) & 1]
                    pr[k] = (False, z3.BitVecVal(v, n))
            if any_inputs:
                d['any_inputs'] = True
            descs.append(d)
            pairs.append(pr)
        orc = [oracle(pr, any_inputs, typ, n) for pr in pairs]
        rej_any = z3.simplify(z3.Or(orc[0][0], orc[1][0]))
        fp = [typ, any_inputs, list(present1), list(present2)]
        what = f'{typ} any_inputs={any_inputs} keys of M1={list(present1)} keys of M2={list(present2)}'
        SEQ_META.clear()
        SEQ_META[0] = {'api_version': '3.0', 'type': typ, 'models': {'M1': descs[0], 'M2': descs[1]}}
        SEQ_META[1] = {'api_version': '3.0', 'type': typ, 'models': {'M1': descs[1], 'M2': descs[0]}}
        names = ['non-trigger', 'trigger', 'persistent', 'non-persistent']
        with patched(n, sym):
            w = mosaik.World({'X': {'python': 'vk.kernels.c12:MetaSim'}}, skip_greetings=True)
            try:
                for which in (0, 1):
                    try:
                        f = w.start('X', which=which)
                    except ValueError as e:
                        eng.check(rej_any, 'C12.reject', f'start() #{which + 1} rejected although both descriptions are consistent: {what}: {str(e)[:200]}', {'fp': fp})
                        return ('rejected', {'nontrivial': True})
                    except ScenarioErrorT as e:
                        eng.alarm('C12.reject', f'start() #{which + 1} failed with {type(e).__name__}: {str(e)[:200]}: {what}', {'fp': fp + ['scn']})
                        return ('rejected', {'nontrivial': True})
                    eng.check(z3.Not(rej_any), 'C12.accept', f'start() #{which + 1} accepted although the rule rejects one of the descriptions: {what}', {'fp': fp})
                    for mname, oi in (('M1', which), ('M2', 1 - which)):
                        mm = f.models[mname]
                        got = [as_pair(x, n) for x in (mm.measurement_inputs, mm.event_inputs, mm.measurement_outputs, mm.event_outputs)]
                        for nm, g, e in zip(names, got, orc[oi][1]):
                            if e is None:
                                continue
                            eng.check(p_eq(g, e, n), 'C12.result', f'{nm} set of model {mname} of start() #{which + 1} differs from the rule applied to its own description: {what}',
                                      {'fp': fp + [nm]})
            finally:
                try:
                    w.shutdown()
                except Exception:  # noqa
                    pass
        return ('accepted', {'nontrivial': True})
    return h


from mosaik.exceptions import ScenarioError as ScenarioErrorT


def jobs(tier):
    n = 4 if tier == 'quick' else 8
    out = []
    # two descriptions in one process (same keys, or one key more / less), through World.start()
    ns = 3 if tier == 'quick' else 4
    for typ in ('time-based', 'event-based', 'hybrid'):
        for anyi in (False, True) if tier != 'quick' else (False,):
            for r in range(len(KEYS) + 1):
                for p1 in itertools.combinations(KEYS, r):
                    for p2 in [p1] + [tuple(k for k in KEYS if (k in p1) != (k == t)) for t in KEYS]:
                        if tier == 'quick' and p2 != p1 and len(p2) < len(p1):
                            continue   # the swapped start covers the other order
                        out.append({'id': f'seq|{typ}|any={int(anyi)}|{"+".join(p1) or "-"}|{"+".join(p2) or "-"}', 'harness': 'vk.kernels.c12:start_seq',
                                    'params': {'typ': typ, 'any_inputs': anyi, 'present1': list(p1), 'present2': list(p2), 'n': ns}, 'budget_s': 120})
    for typ in ('time-based', 'event-based', 'hybrid'):
        for anyi in (False, True):
            for r in range(len(KEYS) + 1):
                for present in itertools.combinations(KEYS, r):
                    out.append({'id': f'parse|{typ}|any={int(anyi)}|{"+".join(present) or "-"}', 'harness': 'vk.kernels.c12:parse',
                                'params': {'typ': typ, 'any_inputs': anyi, 'present': list(present), 'n': n}})
    for op in OPS:
        for lo in (False, True):
            for ro in (False, True):
                out.append({'id': f'algebra|{op}|{int(lo)}{int(ro)}', 'harness': 'vk.kernels.c12:algebra',
                            'params': {'op': op, 'lout': lo, 'rout': ro, 'n': n}})
    for mask in itertools.product((0, 1), repeat=3):
        for outs in itertools.product((0, 1), repeat=3):
            if any(o and not m for o, m in zip(outs, mask)):
                continue
            out.append({'id': f'triple|{mask}|{outs}', 'harness': 'vk.kernels.c12:triple',
                        'params': {'mask': list(mask), 'outs': list(outs), 'n': n}})
    return out

import sys, time, copy, warnings, builtins
import z3, symex2
from symex2 import Engine, SymInt, SymBool
import mosaik, mosaik_api_v3, mosaik.scenario as sc
from mosaik.simmanager import SimRunner
from mosaik.exceptions import ScenarioError
from loguru import logger
logger.remove(); warnings.simplefilter('ignore')
SALT = int(sys.argv[1]) if len(sys.argv) > 1 else 0
class DetSimRunner(SimRunner):
    def __hash__(self): return hash((SALT, self.sid))
    def __eq__(self, o): return self is o
sc.SimRunner = DetSimRunner
sc.int = lambda x=0: x if isinstance(x, SymInt) else builtins.int(x)
META = {'api_version': '3.0', 'type': 'hybrid', 'models': {'M': {'public': True, 'params': [], 'attrs': ['i', 'o'], 'trigger': ['i'], 'non-persistent': ['o']}}}
class Sim(mosaik_api_v3.Simulator):
    def __init__(self): super().__init__(copy.deepcopy(META))
    def init(self, sid, time_resolution): return self.meta
    def create(self, num, model): return [{'eid': 'e', 'type': model}]
    def step(self, time, inputs, max_advance): return time + 1
    def get_data(self, o): return {}
def harness(eng):
    w = mosaik.World({'S': {'python': '__main__:Sim'}}, skip_greetings=True, cache=False)
    try:
        with w.group():
            a = w.start('S', sim_id='A').M(); b = w.start('S', sim_id='B').M()
        c = w.start('S', sim_id='C').M()
        ks = [eng.fresh_int(f'k{i}', 0) for i in range(4)]
        w.connect(a, b, ('o', 'i'), time_shifted=ks[0])
        w.connect(b, c, ('o', 'i'), time_shifted=ks[1])
        w.connect(c, a, ('o', 'i'), time_shifted=ks[2])
        w.connect(b, a, ('o', 'i'), time_shifted=ks[3], weak=WEAK)
        zero3 = z3.And(ks[0].e == 0, ks[1].e == 0, ks[2].e == 0)
        zero2 = z3.And(ks[0].e == 0, ks[3].e == 0, not WEAK)
        expect_cycle = z3.Or(zero3, zero2)
        try:
            w.ensure_no_dataflow_cycles()
            eng.check(z3.Not(expect_cycle), 'accepted although a zero cycle exists')
            return 'accepted'
        except ScenarioError:
            eng.check(expect_cycle, 'rejected although every cycle is resolved')
            return 'rejected'
    finally:
        w.shutdown()
for WEAK in (False, True):
    eng = Engine(); t0 = time.time()
    res, complete = eng.explore(harness, budget_s=60)
    from collections import Counter
    print('weak', WEAK, 'salt', SALT, Counter(r[1] if r[0] == 'ok' else (r[0], r[1].what) for r in res), 'complete', complete, 'paths', eng.paths, 'solver', eng.solver_calls, 'time', round(time.time() - t0, 1))

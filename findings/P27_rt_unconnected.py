# P27 (fixed 8337a78): before the fix, a real-time run of two unconnected in-process simulators failed with
# AttributeError: SimRunner object has no attribute rt_start.  Run with: /venv/bin/python findings/P27_rt_unconnected.py
import mosaik, mosaik_api_v3
class S(mosaik_api_v3.Simulator):
    def __init__(self):
        super().__init__({"api_version": "3.0", "type": "time-based", "models": {"M": {"public": True, "params": [], "attrs": ["x"]}}})
    def init(self, sid, time_resolution=1.0, **kw): return self.meta
    def create(self, num, model, **p): return [{"eid": "e", "type": "M"}]
    def step(self, time, inputs, max_advance): return time + 1
    def get_data(self, o): return {"e": {"x": 1}}
w = mosaik.World({"S": {"python": "__main__:S"}}, skip_greetings=True)
a = w.start("S").M(); b = w.start("S").M()
w.run(until=3, rt_factor=0.05)
print("done")

#!/usr/bin/env python3
"""keepseed.py <id> <property> <caught_by(comma)> <status> <needs...>   copies /tmp/seed_out/<id> into /verif/seeded/<id>/ with meta.json"""
import json, os, shutil, sys
sid, prop, caught, status = sys.argv[1:5]
needs = ' '.join(sys.argv[5:])
import os as _os
src = _os.environ.get('SEED_SRC', f'/tmp/seed_out/{sid}')
dst = f'/verif/seeded/{sid}'
os.makedirs(dst, exist_ok=True)
for f in ('patch.diff', 'demo.py', 'notes.md'):
    if os.path.exists(os.path.join(src, f)):
        shutil.copy(os.path.join(src, f), os.path.join(dst, f))
meta = {
    'seed': sid, 'breaks_property': prop, 'author': 'independent sub-agent (given only the property record and a scratch worktree)',
    'needs_to_manifest': needs,
    'confirmed': {'suite_with_change': '233 passed, 6 skipped (scratch worktree, PYTHONPATH=<worktree>)',
                  'demo_without_change': 'PASS (exit 0)', 'demo_with_change': 'FAIL (exit 1)',
                  'commands': [f'PYTHONPATH=<wt> /venv/bin/python -m pytest -q -p no:cacheprovider --timeout=900 -n 6',
                               'PYTHONPATH=<wt> /venv/bin/python demo.py', 'tools/seedtest.sh (git -C /repo apply patch.diff; ./run_check.sh <id> quick; git -C /repo checkout -- .)']},
    'caught_by_quick_checks': [c for c in caught.split(',') if c],
    'status': status,
}
json.dump(meta, open(os.path.join(dst, 'meta.json'), 'w'), indent=1)
print('kept', dst)

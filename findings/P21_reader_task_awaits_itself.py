"""A remote simulator that, during its step, sends an asynchronous request to mosaik and then exits (closes its socket).
mosaik answers the request (write #1 to the dead socket -> RST) and then, during shutdown, writes the stop request (write #2
-> EPIPE).  Expected: run() fails because the simulator closed its connection; the other simulator is finalized; the loop is closed."""
import json, socket, struct, threading, time
import mosaik, mosaik_api_v3

META = {'api_version': '3.0', 'type': 'time-based', 'models': {'M': {'public': True, 'params': [], 'attrs': ['a']}}}

def serve(srv):
    conn, _ = srv.accept()
    def recv():
        hdr = conn.recv(4, socket.MSG_WAITALL)
        n = struct.unpack('>I', hdr)[0]
        return json.loads(conn.recv(n, socket.MSG_WAITALL))
    def send(msg):
        b = json.dumps(msg).encode()
        conn.sendall(struct.pack('>I', len(b)) + b)
    while True:
        typ, mid, (func, args, kwargs) = recv()
        if func == 'init':
            send([1, mid, META])
        elif func == 'create':
            send([1, mid, [{'eid': 'e', 'type': 'M'}]])
        elif func == 'setup_done':
            send([1, mid, None])
        elif func == 'step':
            for i in range(5): send([0, i, ['get_progress', [], {}]])   # asynchronous requests ...
            conn.close()                              # ... and the process is gone
            return

class Local(mosaik_api_v3.Simulator):
    finalized = 0
    def __init__(self):
        super().__init__(META)
    def init(self, sid, time_resolution):
        return self.meta
    def create(self, num, model):
        return [{'eid': 'e', 'type': model}]
    def step(self, time, inputs, max_advance):
        return time + 1
    def get_data(self, outputs):
        return {'e': {'a': 1}}
    def finalize(self):
        Local.finalized += 1

srv = socket.socket(); srv.bind(('127.0.0.1', 0)); srv.listen(1)
port = srv.getsockname()[1]
threading.Thread(target=serve, args=(srv,), daemon=True).start()
w = mosaik.World({'R': {'connect': f'127.0.0.1:{port}'}, 'L': {'python': '__main__:Local'}}, skip_greetings=True)
w.start('R', sim_id='Remote').M()
w.start('L', sim_id='Local').M()
t0 = time.time()
try:
    w.run(until=3, print_progress=False)
    print('run returned normally')
except BaseException as e:
    print('run raised', type(e).__name__, str(e)[:120])
print('local simulator finalized', Local.finalized, 'time(s); loop closed:', w.loop.is_closed())

import asyncio, copy, mosaik, mosaik_api_v3
META = {'api_version': '3.0', 'type': 'event-based', 'models': {'M': {'public': True, 'params': [], 'attrs': ['i', 'o']}}}
class Sim(mosaik_api_v3.Simulator):
    def __init__(self): super().__init__(copy.deepcopy(META))
    def init(self, sid, time_resolution, typ='event-based', slow=0.0):
        self.sid=sid; self.meta['type']=typ; self.typ=typ; self.slow=slow
        if typ=='hybrid': self.meta['models']['M']['trigger']=['i']
        return self.meta
    def create(self, num, model): return [{'eid':'e','type':model}]
    def step(self, time, inputs, max_advance):
        print('step', self.sid, time, inputs, max_advance)
        self.t=time
        if self.slow: yield asyncio.sleep(self.slow)
        return time+1 if self.typ=='time-based' else None
    def get_data(self, outputs): return {'e': {'o': self.t}}
w = mosaik.World({'S': {'python': '__main__:Sim'}}, skip_greetings=True)
a = w.start('S', sim_id='A', typ='hybrid', slow=0.35).M()
b = w.start('S', sim_id='B', typ='event-based').M()
c = w.start('S', sim_id='C', typ='time-based', slow=0.1).M()
w.connect(a, b, ('o','i'))
w.run(until=3, print_progress=False)

#!/bin/bash
# usage: confirmseed.sh <seed dir> <worktree>   confirms: suite passes with the change, demo FAILs with / PASSes without
SD="$1"; WT="$2"
git -C "$WT" checkout -q -- . ; git -C "$WT" status --short | head -2
( cd "$SD" && PYTHONPATH="$WT" timeout 300 /venv/bin/python demo.py >/tmp/cs_clean.out 2>&1; echo "demo without change: exit=$? $(tail -1 /tmp/cs_clean.out | cut -c1-150)" )
git -C "$WT" apply "$SD/patch.diff" || { echo "patch does not apply in worktree"; exit 9; }
( cd "$SD" && PYTHONPATH="$WT" timeout 300 /venv/bin/python demo.py >/tmp/cs_mut.out 2>&1; echo "demo with change: exit=$? $(tail -1 /tmp/cs_mut.out | cut -c1-200)" )
( cd "$WT" && PYTHONPATH="$WT" /venv/bin/python -m pytest -q -p no:cacheprovider --timeout=900 -n 6 2>&1 | tail -1 )

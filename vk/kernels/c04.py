"""C04 kernel: schedule and configuration independence as a 2-safety property.  Two runs of the
real World in ONE path: run 1 in the canonical configuration (all simulators synchronous, lazy on,
cache on, debug off, start order as written - what the test suite runs), run 2 in a variant
(transport modes, solver-chosen delivery order, lazy / cache / debug toggled, start order reversed,
hash salt).  Both runs draw the SAME behaviour variables (named by simulator and step ordinal), so
`log1[s] == log2[s]` for every simulator is an assertion over shared symbolic values."""
from __future__ import annotations

from vk import sysrun, topo as T
from vk.engine import PathCut
from vk.tt import b_and


def per_sim(log):
    out = {}
    for x in log:
        if x[0] == 'step':
            out.setdefault(x[1], []).append((x[2], x[4]))
    return out


def flat(inputs):
    d = {}
    for eid, attrs in inputs.items():
        for attr, srcs in attrs.items():
            for src, v in srcs.items():
                if v is not None:
                    d[(eid, attr, src)] = v
    return d


def conn_kinds(topo, sid, slots):
    ks = set()
    for e in topo['edges']:
        if e['dst'] == sid and ((e.get('de', 'e'), e['da'], f"{e['src']}.{e.get('se', 'e')}") in slots):
            k = []
            if e.get('weak'):
                k.append('weak')
            if not (type(e.get('k', 0)) is int and e.get('k', 0) == 0):
                k.append('shifted')
            ks.add('-'.join(k) or 'plain')
    return sorted(ks)


def pair(topo, variant):
    sims = sorted(topo['types'])
    canon = {'until': variant.get('until', 3), 'K': variant.get('K', 2), 'cache': True, 'lazy': True, 'D': 0, 'sync': sims,
             'salt': 0, 'no_ref': True, 'future_outputs': variant.get('future_outputs', False), 'future_mixed': variant.get('future_mixed', False), 'no_self': variant.get('no_self', []),
             'gain': variant.get('gain', {})}

    def h(eng):
        r1 = sysrun.run_world(eng, topo, canon, rules=())
        log1 = per_sim(r1.log)
        v = dict(variant)
        v['no_ref'] = True
        r2 = sysrun.run_world(eng, topo, v, rules=())
        log2 = per_sim(r2.log)
        fp = [topo['name']]
        vdesc = {k: variant[k] for k in ('cache', 'lazy', 'sync', 'debug', 'reverse_start', 'salt', 'D', 'remote', 'remote_cmd', 'gain') if k in variant}
        desc = f"{topo['name']} variant={vdesc}"
        if r1.outcome != 'done' or r2.outcome != 'done':
            # completion is C05's business; a crash in only one configuration is still a divergence
            if r1.outcome != r2.outcome:
                eng.alarm('C04.outcome', f'canonical run ended {r1.outcome}, variant ended {r2.outcome} {r2.exc_info.get("exc_msg", "")}: {desc}', {'fp': fp + ['outcome']})
            return (f'{r1.outcome}/{r2.outcome}', {'nontrivial': False})
        n = 0
        for sid in sims:
            a, b = log1.get(sid, []), log2.get(sid, [])
            for i in range(min(len(a), len(b))):
                (t1, in1), (t2, in2) = a[i], b[i]
                n += 1
                ok = eng.check(t1 == t2, 'C04.time', lambda: f'{sid} step #{i}: time {t1} in the canonical run, {t2} in the variant: {desc}', {'fp': fp + ['time']})
                f1, f2 = flat(in1), flat(in2)
                if f1 != f2:
                    bad = {k for k in set(f1) | set(f2) if f1.get(k) != f2.get(k)}
                    kinds = conn_kinds(topo, sid, bad)
                    eng.alarm('C04.inputs', f'{sid} step #{i} at {t1}: inputs {f1} in the canonical run, {f2} in the variant: {desc}',
                              {'fp': fp + ['inputs', kinds], 'conn_kinds': kinds, 'weak_only': bool(kinds) and all('weak' in k for k in kinds)})
                    break
                if not ok:
                    break
            if len(a) != len(b):
                eng.alarm('C04.count', f'{sid} performed {len(a)} steps in the canonical run and {len(b)} in the variant: {desc}', {'fp': fp + ['count']})
        return ('same', {'nontrivial': n > 0, 'compared_steps': n})
    return h


def variants(topo, tier):
    q = tier == 'quick'
    sims = sorted(topo['types'])
    out = []
    masks = list(T.sync_masks(topo, 'all' if len(sims) <= 2 else 'extremes'))
    # transport modes / delivery orders
    for sync in masks:
        if sync == sims:
            continue
        out.append({'cache': True, 'lazy': True, 'sync': sync})
    # configuration toggles (under the canonical schedule and under the all-asynchronous one)
    for sync in ([sims] if q else [sims, []]):
        out.append({'cache': False, 'lazy': True, 'sync': sync})
        out.append({'cache': True, 'lazy': False, 'sync': sync})
        out.append({'cache': True, 'lazy': True, 'sync': sync, 'debug': True})
        out.append({'cache': True, 'lazy': True, 'sync': sync, 'reverse_start': True})
        out.append({'cache': True, 'lazy': True, 'sync': sync, 'salt': 1})
    # transport: the same simulators behind the (in-memory) remote transport, all message orders; all of them / the first one only
    rq = {'tb2': 2, 'hyb2': 2, 'tb_ev': 1, 'ev2': 1, 'weaktb': 1, 'grp_out': 1, 'multi_shift': 1}
    if (len(sims) <= 2 and (not q or topo['name'] in rq)) or (not q and topo['name'] in ('chain3ev', 'fanin', 'tbchain3')):
        out.append({'cache': True, 'lazy': True, 'sync': sims, 'remote': sims})
        if len(sims) <= 2 and (not q or rq[topo['name']] > 1):
            out.append({'cache': True, 'lazy': True, 'sync': sims, 'remote': sims[:1]})
            if not q:
                out.append({'cache': False, 'lazy': False, 'sync': sims, 'remote': sims[1:]})
    # cmd starter (in memory): one simulator is configured through its process environment; either start order
    if topo['name'] in ('tb2', 'hyb2') or (not q and len(sims) <= 2 and all(t_ != 'event-based' for t_ in topo['types'].values())):
        out.append({'cache': True, 'lazy': True, 'sync': sims, 'remote_cmd': sims, 'gain': {sims[0]: 1}})
        out.append({'cache': True, 'lazy': True, 'sync': sims, 'remote_cmd': sims, 'gain': {sims[-1]: 1}, 'reverse_start': True})
    if not q:
        out.append({'cache': False, 'lazy': False, 'sync': [], 'reverse_start': True, 'salt': 2})
        out.append({'cache': True, 'lazy': True, 'sync': [], 'D': 1})
    return out


def jobs(tier):
    q = tier == 'quick'
    cur = {t['name']: t for t in T.curated()}
    names = ['tb2', 'tbshift', 'tbloop', 'hyb2', 'hyb2pm', 'tb_ev', 'tb_hy', 'ev2', 'evloop', 'weaktb', 'grp_sib', 'grp_out',
             'multi_tb', 'multi_shift', 'multi_shift_rev', 'ent2x', 'ent2hy']
    three = ['chain3ev', 'fanin', 'tbchain3', 'fanout_shift2', 'fanout_shift2r'] if q else ['chain3ev', 'chain3', 'fanin', 'fanout', 'tbchain3', 'loop3shift', 'weak3', 'nested', 'reenter']
    out = []
    for name in names + three:
        t = cur[name]
        K = 3 if ((name.startswith('tb') and len(t['types']) == 2) or name.startswith('fanout_shift2')) else 2
        if not q and len(t['types']) == 2 and name != 'evloop':
            K = 3     # evloop (two event-based simulators triggering each other) does not finish at K=3
        for v in variants(t, tier):
            v = dict(v)
            v.update({'until': 3, 'K': K, 'D': v.get('D', 0), 'salt': v.get('salt', 0)})
            if 'nocache' in t.get('tags', ()):
                continue
            big = len(t['types']) >= 3 and not v['sync']
            vid = '|'.join(f'{k}={v[k]}' for k in sorted(v) if k not in ('until',))
            j = {'id': f"{name}|{vid}".replace(' ', ''), 'harness': 'vk.kernels.c04:pair', 'params': {'topo': t, 'variant': v}, 'budget_s': 300}
            if big:
                j['split_depth'] = 24
            out.append(j)
    # a hybrid producer whose reply carries a persistent and an event output together with an output time later than the step
    # (the time entry of a reply): cache on (canonical) against cache off / lazy off / asynchronous replies
    t = cur['hyb2pm']
    for v in ({'cache': False, 'lazy': True, 'sync': ['A', 'B']}, {'cache': True, 'lazy': False, 'sync': []}, {'cache': False, 'lazy': True, 'sync': []}):
        v = dict(v, until=3, K=2, D=0, salt=0, future_outputs=True, future_mixed=True)
        vid = '|'.join(f'{k}={v[k]}' for k in sorted(v) if k not in ('until',))
        out.append({'id': f"hyb2pm|futmixed|{vid}".replace(' ', ''), 'harness': 'vk.kernels.c04:pair', 'params': {'topo': t, 'variant': v}, 'budget_s': 300})
    return out

"""C04 Schedule and configuration independence (determinism)."""
from vk import common, sysrun, remote
from vk.kernels import c04 as K


def run(rep, tier, seed, args):
    jobs = K.jobs(tier)
    rep.rule = ('one case = one path containing TWO runs of the real World.run() on the same scenario with shared symbolic simulator behaviour: the canonical '
                'configuration and one variant (transport modes with solver-chosen delivery order / cache off / lazy off / debug on / reversed start order / '
                'hash salt); the per-simulator (time, inputs) sequences must be equal (times as terms); non-trivial = at least one pair of steps was compared')
    rep.bounds = {'simulators': '<= 3', 'steps': 'K=2-3', 'until': 3, 'variants': 'one toggle at a time (thorough: also combined and D=1)',
                  'transport': 'in-process vs the in-memory remote transport (vk.remote: real start_connect, RemoteProxy, Channel, stream classes and simulator-side loop; all message orders) for all / the first simulator',
                  'outside': 'sockets, subprocesses and the JSON text of a message (replaced by a table lookup with the structural effect of a JSON round trip); non-deterministic simulators'}
    rep.assumptions = list(sysrun.STUBS) + list(remote.STUBS) + ['deterministic simulator = behaviour is a function of (simulator, step ordinal), shared by both runs; the first divergence of the observed sequences is reported']
    rep.add_jobs(common.run_jobs(jobs))

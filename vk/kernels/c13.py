"""C13 kernel: runtime validation of simulator replies.  System runs in which one simulator
(which one, and at which step ordinal, decided by the engine) returns one malformed reply:
  back     next step = t + delta, delta <= 0 unbounded symbolic
  nonint   next step 1.5 / '3' / [3]
  none     a time-based simulator returns None
  early    output time t - eps, eps >= 1 unbounded symbolic
Obligations: run() raises, the error names the simulator, and after the offending reply has
been delivered nobody is stepped because of it."""
from __future__ import annotations

from vk import sysrun, topo as T
from vk.engine import PathCut


def faulty(topo, cfg, culprit, kind):
    def h(eng):
        K = cfg.get('K', 3)
        state = {'fired_at': None, 'delivered': False, 'after': []}
        fi = eng.int('fault_at', 0, K - 1)

        def behaviour(sim, what, k, time, arg, max_advance):
            if sim.sid != culprit or state['fired_at'] is not None and state['fired_at'] != k:
                return NotImplemented
            if what == 'step' and kind in ('back', 'nonint', 'none'):
                if state['fired_at'] is None and bool(fi == k):
                    state['fired_at'] = k
                    state['time'] = time
                    if kind == 'back':
                        return time + eng.int('delta', None, 0)
                    if kind == 'none':
                        return None
                    return [1.5, '3', [3], 2.0, 3.0][eng.choose(5, 'nonint_value')]     # whole-number floats are not integers either
            if what == 'get_data' and kind == 'early':
                if state['fired_at'] is None and bool(fi == k):
                    state['fired_at'] = k
                    state['time'] = time
                    data = {eid: {a: f'{sim.sid}#{k}.{a}' for a in attrs} for eid, attrs in arg.items()}
                    data['time'] = time - eng.int('eps', 1)
                    return data
            return NotImplemented

        def hook(ev, sid, f, payload):
            # the offending reply reaches mosaik when the proxy's send() returns
            want = 'get_data' if kind == 'early' else 'step'
            if ev == 'reply' and sid == culprit and f == want and state['fired_at'] is not None and not state['delivered']:
                if state.get('armed'):
                    state['delivered'] = True
            if ev == 'request' and sid == culprit and f == want and state['fired_at'] is None:
                pass
            if ev == 'request' and f == 'step' and state['delivered'] and sid == culprit:
                # other simulators may still receive requests that were already on their way when the error surfaced;
                # the culprit itself must not be stepped again on the strength of the malformed reply
                state['after'].append((sid, payload[0]))

        # arm: the reply being delivered is the one of the fault step
        orig_behaviour = behaviour

        def behaviour2(sim, what, k, time, arg, max_advance):
            r = orig_behaviour(sim, what, k, time, arg, max_advance)
            if r is not NotImplemented and state['fired_at'] == k and sim.sid == culprit:
                state['armed'] = True
            return r
        r = sysrun.run_world(eng, topo, cfg, behaviour=behaviour2, hook=hook, rules=('C02',) if cfg.get('monitor_c02') else ())
        fp = [topo['name'], culprit, kind]
        desc = f"{topo['name']} culprit={culprit} kind={kind} at step ordinal {state['fired_at']}"
        if state['fired_at'] is None:
            # the culprit never reached the chosen step ordinal on this path: nothing malformed was sent
            return ('nofault:' + str(r.outcome), {'nontrivial': False})
        if r.outcome == 'done':
            eng.alarm('C13.accepted', f'malformed reply silently accepted, run() completed: {desc}', {'fp': fp})
        elif r.outcome in ('deadlock', 'livelock'):
            eng.alarm('C13.hang', f'run() {r.outcome} after a malformed reply: {desc}', {'fp': fp})
        else:
            msg = str(r.exc)
            et = type(r.exc).__name__
            eng.check(culprit in msg, 'C13.noid', f'run() raised {et}({msg[:100]!r}) which does not identify simulator {culprit}: {desc}',
                      {'fp': fp + [et], 'exc_type': et})
            # the statement asks for "an error identifying the simulator"; an `assert` is not one (it disappears under python -O,
            # after which the reply would be silently accepted), any other exception type is
            eng.check(et != 'AssertionError', 'C13.errtype', f'the reply is only caught by an assert statement ({msg[:80]!r}): {desc}', {'fp': fp + [et], 'exc_type': et})
        eng.check(not state['after'], 'C13.continued', f'the culprit was stepped again after its malformed reply was delivered: {state["after"]}: {desc}', {'fp': fp})
        return (r.outcome, {'nontrivial': True, 'fault_at': state['fired_at']})
    return h


def jobs(tier):
    q = tier == 'quick'
    cur = {t['name']: t for t in T.curated()}
    out = []
    # *_init: the culprit has further steps queued (initial events) when its malformed reply arrives
    plans = [('tb2', ['A', 'B']), ('hyb2', ['A', 'B']), ('tb_ev', ['A', 'B']), ('weak2', ['A', 'B']), ('tb_ev_init', ['A']), ('hyb2_init', ['B'])]
    if not q:
        plans += [('tb_ev_init', ['B']), ('hyb2_init', ['A']), ('ev2_init2', ['A', 'B']), ('ev2', ['A', 'B']), ('tbloop', ['A', 'B']), ('hy_tb', ['A', 'B']),
                  ('chain3ev', ['A', 'B']), ('fanin', ['B', 'C']), ('grp_sib', ['A', 'B']), ('tbchain3', ['B'])]
    for name, culprits in plans:
        t = cur[name]
        for culprit in culprits:
            typ = t['types'][culprit]
            has_out = any(e['src'] == culprit for e in t['edges'])
            for kind in ('back', 'nonint', 'none', 'early'):
                if kind == 'none' and typ != T.TB:
                    continue
                if kind == 'early' and not has_out:
                    continue
                masks = [[], sorted(t['types'])] if (q or 'init' in name) else list(T.sync_masks(t, 'all' if len(t['types']) <= 2 else 'extremes'))
                for sync in masks:
                    for cache in ((True, False) if (not q or kind == 'early') else (True,)):
                        cfg = {'until': 3, 'K': 3, 'cache': cache, 'lazy': True, 'D': 0, 'sync': sync, 'salt': 0}
                        if name == 'weak2':
                            cfg.update({'no_self': ['A', 'B'], 'until': 2, 'K': 3 if q else 4})
                        if len(t['types']) > 2:
                            cfg['K'] = 2
                        out.append({'id': f"{name}|{culprit}|{kind}|sync={''.join(sync) or '-'}|cache={int(cache)}",
                                    'harness': 'vk.kernels.c13:faulty',
                                    'params': {'topo': t, 'cfg': cfg, 'culprit': culprit, 'kind': kind}, 'budget_s': 200})
    return out

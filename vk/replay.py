"""Concrete replay of a recorded counterexample on the real code:

    .venv/bin/python -m vk.replay replays/<file>.json

The harness named in the file is run with plain Python values taken from the script
(no solver decides anything).  Exit 1 and a REPRODUCED line if the violated rule fires
again, exit 0 if it does not (e.g. after a repair)."""
import json
import os
import sys

sys.path.insert(0, os.path.dirname(os.path.dirname(os.path.abspath(__file__))))
_repo = os.environ.get('VK_REPO', '/repo')
if _repo not in sys.path:
    sys.path.insert(1, _repo)


def main(path):
    import warnings
    warnings.simplefilter('ignore')
    from loguru import logger
    logger.remove()
    from vk import common
    r = json.load(open(path))
    if r.get('concrete') == 'vk.validate':
        from vk import validate
        v = validate.run(only=r['scenario'])
        hits = [a for a in v['alarms'] if a['rule'] == r['rule']]
        if hits:
            print(f"REPRODUCED property={r['property']} rule={r['rule']} in scenario {r['scenario']}: {hits[0]['msg']}")
            return 1
        print('NOT-REPRODUCED', v['failures'][:2])
        return 0
    ok, detail = common.replay_script(r['harness'], r['params'], r['script'], r['rule'])
    print(json.dumps({'rule': r['rule'], 'harness': r['harness'], 'params': r['params'], 'script': r['script']}, default=str)[:4000])
    if ok:
        print(f"REPRODUCED property={r['property']} rule={r['rule']}: {detail.get('msg')}")
        print('  observed:', detail.get('value'))
        return 1
    print('NOT-REPRODUCED', detail)
    return 0


if __name__ == '__main__':
    sys.exit(main(sys.argv[1]))

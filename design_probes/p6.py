from mosaik.tiered_time import TieredInterval, TieredTime

def assoc(a0: int, a1: int, b0: int, b1: int, c0:int, c1:int) -> bool:
    """
    post: _
    """
    a = TieredInterval(a0, a1, cutoff=1, pre_length=2); b = TieredInterval(b0, b1,cutoff=2); c = TieredInterval(c0, c1, cutoff=1, pre_length=2)
    return (a + b) + c == a + (b + c)

def action(t0:int, t1:int, a0: int, a1: int, b0: int, b1: int) -> bool:
    """
    post: _
    """
    a = TieredInterval(a0, a1, cutoff=1, pre_length=2); b = TieredInterval(b0, b1,cutoff=2); t = TieredTime(t0,t1)
    return (t + a) + b == t + (a + b)

def irrefl(a0: int, a1: int, a2: int) -> bool:
    """
    post: _
    """
    a = TieredInterval(a0, a1, a2, cutoff=2, pre_length=3)
    return not (a < a)
